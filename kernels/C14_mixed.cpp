// C14 (part 4) - NARROW and MIXED value types: the result of vector/dim/matrix operators on operands of different or
// sub-int value types has the PROMOTED value type (decltype(L op R)) and every component equals the same expression on
// plain scalars of those types (integral promotion / usual arithmetic conversions); partial sums of a matrix product
// over signed char are int and are never truncated back to signed char.
// Real code: matrix::operator* (matrix, vector, scalar both sides), matrix + -, vector + - * (vector, scalar both
// sides, unary -), dim + - * (dim, scalar), vector (+|-|*) dim, with value types signed char, unsigned char, short,
// unsigned short, int, unsigned in the combinations listed at the harnesses.
// Every entry is a full-range symbolic value of its type (stronger than [-9,9]); the TU is compiled with -fwrapv, so
// int results that leave the int range wrap (only possible in the int x int products / sums of the mixed cases).
// The value AND the type are checked at run time: values are compared after conversion to long long (a result of the
// wrong signedness or a truncated result differs there), and sizeof/signedness of the component type are compared with
// those of the scalar expression (no static_assert: a changed result type must be a reported violation, not a build
// failure).
//@property C14
//@flags -fwrapv
#include "verif_api.h"
#include <fcppt/math/size_constant.hpp>
#include <fcppt/math/size_type.hpp>
#include <fcppt/math/dim/arithmetic.hpp>
#include <fcppt/math/dim/init.hpp>
#include <fcppt/math/dim/object_impl.hpp>
#include <fcppt/math/dim/static.hpp>
#include <fcppt/math/matrix/arithmetic.hpp>
#include <fcppt/math/matrix/index.hpp>
#include <fcppt/math/matrix/init.hpp>
#include <fcppt/math/matrix/object_impl.hpp>
#include <fcppt/math/matrix/static.hpp>
#include <fcppt/math/matrix/vector.hpp>
#include <fcppt/math/vector/arithmetic.hpp>
#include <fcppt/math/vector/dim.hpp>
#include <fcppt/math/vector/init.hpp>
#include <fcppt/math/vector/object_impl.hpp>
#include <fcppt/math/vector/static.hpp>
#include <cstdint>
#include <type_traits>

namespace
{
using sz = fcppt::math::size_type;
using ll = long long;
namespace mx = fcppt::math::matrix;
namespace vx = fcppt::math::vector;
namespace dx = fcppt::math::dim;
using i8 = signed char; using u8 = unsigned char; using i16 = short; using u16 = unsigned short; using i32 = int; using u32 = unsigned;

template <typename T> T sym(char const *const n)
{
  if constexpr (sizeof(T) == 1) return static_cast<T>(verif_u8(n));
  else if constexpr (sizeof(T) == 2) return static_cast<T>(verif_u16(n));
  else return static_cast<T>(verif_u32(n));
}
template <typename T, sz N> struct arr { T c[N]; };
template <typename T, sz R, sz C> struct amat { T m[R][C]; };
template <typename T, sz N> arr<T, N> fresh(char const *const n) { arr<T, N> a; for (sz i = 0; i < N; ++i) a.c[i] = sym<T>(n); return a; }
template <typename T, sz R, sz C> amat<T, R, C> freshm(char const *const n) { amat<T, R, C> a; for (sz i = 0; i < R; ++i) for (sz j = 0; j < C; ++j) a.m[i][j] = sym<T>(n); return a; }
template <typename T, sz N> vx::static_<T, N> mkv(arr<T, N> const &a) { return vx::init<vx::static_<T, N>>([&a]<sz I>(fcppt::math::size_constant<I>) { return a.c[I]; }); }
template <typename T, sz N> dx::static_<T, N> mkd(arr<T, N> const &a) { return dx::init<dx::static_<T, N>>([&a]<sz I>(fcppt::math::size_constant<I>) { return a.c[I]; }); }
template <typename T, sz R, sz C> mx::static_<T, R, C> mkm(amat<T, R, C> const &a) { return mx::init<mx::static_<T, R, C>>([&a]<sz Row, sz Col>(mx::index<Row, Col>) { return a.m[Row][Col]; }); }

// run-time (compile-robust) comparison of a component with the scalar expression: same value as a mathematical integer,
// same size and signedness of the type
template <typename Got, typename Exp>
void comp(Got const got, Exp const exp, char const *const what)
{
  verif_assert(static_cast<ll>(got) == static_cast<ll>(exp), what);
  verif_assert(sizeof(Got) == sizeof(Exp) && std::is_signed_v<Got> == std::is_signed_v<Exp>, "the component type is the promoted type of the scalar expression");
}

// ---- matrix<signed char> * matrix<signed char>, * vector<signed char>; matrix<short> * vector<int>
template <sz N>
void matmul_narrow()
{
  amat<i8, N, N> const A{freshm<i8, N, N>("a")}, B{freshm<i8, N, N>("b")};
  arr<i8, N> const V{fresh<i8, N>("v")};
  auto const p{mkm(A) * mkm(B)};
  for (sz i = 0; i < N; ++i)
    for (sz j = 0; j < N; ++j)
    {
      int s{0};
      for (sz k = 0; k < N; ++k) s += static_cast<int>(A.m[i][k]) * static_cast<int>(B.m[k][j]);
      if (i == 0 && j == 0) verif_out("p00", static_cast<std::uint32_t>(s));
      comp(p.get_unsafe(i).get_unsafe(j), s, "matrix<signed char> product: int entries, partial sums not truncated");
    }
  auto const pv{mkm(A) * mkv(V)};
  for (sz i = 0; i < N; ++i)
  {
    int s{0};
    for (sz k = 0; k < N; ++k) s += static_cast<int>(A.m[i][k]) * static_cast<int>(V.c[k]);
    comp(pv.get_unsafe(i), s, "matrix<signed char> * vector<signed char>: int entries");
  }
  amat<i16, N, N> const S{freshm<i16, N, N>("s")};
  arr<i32, N> const W{fresh<i32, N>("w")};
  auto const sw{mkm(S) * mkv(W)};
  for (sz i = 0; i < N; ++i)
  {
    int s{0};
    for (sz k = 0; k < N; ++k) s += S.m[i][k] * W.c[k];
    comp(sw.get_unsafe(i), s, "matrix<short> * vector<int>");
  }
  // scalar forms and entry-wise forms
  i16 const sc{sym<i16>("sc")};
  amat<i32, N, N> const I{freshm<i32, N, N>("i")};
  auto const ms{mkm(A) * sc}, sm{sc * mkm(A)}, add{mkm(S) + mkm(I)}, sub{mkm(S) - mkm(I)}, nadd{mkm(A) + mkm(B)};
  for (sz i = 0; i < N; ++i)
    for (sz j = 0; j < N; ++j)
    {
      comp(ms.get_unsafe(i).get_unsafe(j), A.m[i][j] * sc, "matrix<signed char> * short scalar");
      comp(sm.get_unsafe(i).get_unsafe(j), sc * A.m[i][j], "short scalar * matrix<signed char>");
      comp(add.get_unsafe(i).get_unsafe(j), S.m[i][j] + I.m[i][j], "matrix<short> + matrix<int>");
      comp(sub.get_unsafe(i).get_unsafe(j), S.m[i][j] - I.m[i][j], "matrix<short> - matrix<int>");
      comp(nadd.get_unsafe(i).get_unsafe(j), A.m[i][j] + B.m[i][j], "matrix<signed char> + matrix<signed char>: int entries");
    }
  verif_reach("matmul_narrow-end");
}

// non-square: 2x3 * 3x2 over signed char
void matmul_narrow_2x3()
{
  amat<i8, 2, 3> const A{freshm<i8, 2, 3>("a")};
  amat<i8, 3, 2> const B{freshm<i8, 3, 2>("b")};
  auto const p{mkm(A) * mkm(B)};
  for (sz i = 0; i < 2; ++i)
    for (sz j = 0; j < 2; ++j)
    {
      int s{0};
      for (sz k = 0; k < 3; ++k) s += static_cast<int>(A.m[i][k]) * static_cast<int>(B.m[k][j]);
      comp(p.get_unsafe(i).get_unsafe(j), s, "2x3 * 3x2 over signed char: int entries");
    }
  verif_reach("matmul_narrow_2x3-end");
}

// ---- vectors and dims
template <sz N>
void vec_mixed()
{
  arr<u16, N> const U{fresh<u16, N>("u")};
  arr<i32, N> const I{fresh<i32, N>("i")};
  arr<u8, N> const B{fresh<u8, N>("b")};
  arr<i8, N> const C{fresh<i8, N>("c")}, D{fresh<i8, N>("d")};
  arr<u32, N> const W{fresh<u32, N>("w")};
  arr<i16, N> const S{fresh<i16, N>("s")};
  i32 const k{sym<i32>("k")};
  i16 const h{sym<i16>("h")};
  auto const r1{mkv(U) - mkv(I)}, r2{mkv(U) + mkv(I)}, r3{mkv(U) * mkv(I)}, r4{mkv(I) - mkv(U)};
  auto const r5{mkv(B) * k}, r6{k * mkv(B)}, r7{mkv(B) * h};
  auto const r8{mkv(C) + mkv(D)}, r9{mkv(C) * mkv(D)}, r10{-mkv(B)}, r11{-mkv(C)};
  auto const r12{mkv(I) + mkv(W)}, r13{mkv(I) * mkv(W)};
#ifdef VERIF_MIXED_SU
  // kept in its own translation unit (C14_mixed_su.cpp): a change of the operand types inside operator- makes exactly
  // this combination ill-formed, and a unit that does not build decides nothing
  auto const r14{mkv(S) - mkv(W)};
#endif
  auto const d1{mkd(S) + mkd(I)}, d2{mkd(S) - mkd(I)}, d3{mkd(S) * mkd(I)}, d4{mkd(S) * k}, d5{h * mkd(B)}, d6{-mkd(S)};
  auto const m1{mkv(B) + mkd(I)}, m2{mkv(U) - mkd(S)}, m3{mkv(C) * mkd(B)};
  for (sz i = 0; i < N; ++i)
  {
    if (i == 0) verif_out("u-i", static_cast<std::uint32_t>(U.c[0] - I.c[0]));
    comp(r1.get_unsafe(i), U.c[i] - I.c[i], "vector<uint16_t> - vector<int>");
    comp(r2.get_unsafe(i), U.c[i] + I.c[i], "vector<uint16_t> + vector<int>");
    comp(r3.get_unsafe(i), U.c[i] * I.c[i], "vector<uint16_t> * vector<int>");
    comp(r4.get_unsafe(i), I.c[i] - U.c[i], "vector<int> - vector<uint16_t>");
    comp(r5.get_unsafe(i), B.c[i] * k, "vector<uint8_t> * int scalar");
    comp(r6.get_unsafe(i), k * B.c[i], "int scalar * vector<uint8_t>");
    comp(r7.get_unsafe(i), B.c[i] * h, "vector<uint8_t> * short scalar");
    comp(r8.get_unsafe(i), C.c[i] + D.c[i], "vector<signed char> + vector<signed char>: int components");
    comp(r9.get_unsafe(i), C.c[i] * D.c[i], "vector<signed char> * vector<signed char>: int components");
    comp(r10.get_unsafe(i), -B.c[i], "- vector<uint8_t>: int components");
    comp(r11.get_unsafe(i), -C.c[i], "- vector<signed char>: int components");
    comp(r12.get_unsafe(i), I.c[i] + W.c[i], "vector<int> + vector<unsigned>: unsigned components");
    comp(r13.get_unsafe(i), I.c[i] * W.c[i], "vector<int> * vector<unsigned>: unsigned components");
#ifdef VERIF_MIXED_SU
    comp(r14.get_unsafe(i), S.c[i] - W.c[i], "vector<short> - vector<unsigned>: unsigned components");
#endif
    comp(d1.get_unsafe(i), S.c[i] + I.c[i], "dim<short> + dim<int>");
    comp(d2.get_unsafe(i), S.c[i] - I.c[i], "dim<short> - dim<int>");
    comp(d3.get_unsafe(i), S.c[i] * I.c[i], "dim<short> * dim<int>");
    comp(d4.get_unsafe(i), S.c[i] * k, "dim<short> * int scalar");
    comp(d5.get_unsafe(i), h * B.c[i], "short scalar * dim<uint8_t>");
    comp(d6.get_unsafe(i), -S.c[i], "- dim<short>: int components");
    comp(m1.get_unsafe(i), B.c[i] + I.c[i], "vector<uint8_t> + dim<int>");
    comp(m2.get_unsafe(i), U.c[i] - S.c[i], "vector<uint16_t> - dim<short>");
    comp(m3.get_unsafe(i), C.c[i] * B.c[i], "vector<signed char> * dim<uint8_t>");
  }
  verif_reach("vec_mixed-end");
}
}

#define H(name, ...) VERIF_HARNESS(name) { __VA_ARGS__; }
#ifdef VERIF_MIXED_SU
H(h_mixed_su_1, vec_mixed<1>()) H(h_mixed_su_2, vec_mixed<2>()) H(h_mixed_su_3, vec_mixed<3>())
#else
H(h_mixed_matmul_2, matmul_narrow<2>()) H(h_mixed_matmul_3, matmul_narrow<3>()) H(h_mixed_matmul_2x3, matmul_narrow_2x3())
H(h_mixed_vec_1, vec_mixed<1>()) H(h_mixed_vec_2, vec_mixed<2>()) H(h_mixed_vec_3, vec_mixed<3>())
#endif
//@harness h_mixed_matmul_{N} for N in 2,3,2x3 tier=quick loop=100 som=1
//@harness h_mixed_vec_{N} for N in 1,2,3 tier=quick loop=100 som=1
