// C14 (part 4b) - the vec_mixed harness of C14_mixed.cpp once more, with vector<short> - vector<unsigned> added (signed
// minus unsigned of higher rank: unsigned components).  Separate translation unit on purpose, see the note in C14_mixed.cpp.
//@property C14
//@flags -fwrapv
#define VERIF_MIXED_SU
#include "C14_mixed.cpp"
//@harness h_mixed_su_{N} for N in 1,3 tier=quick loop=100 som=1
