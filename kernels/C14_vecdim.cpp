// C14 (part 1) - vector and dim operators are the component-wise operations of the module Z^N.
// Real code: fcppt::math::vector::{object (static storage and a user view storage), arithmetic (+ - * unary -, scalar *
// on both sides, += -= *=), dot, cross, length_square, null, fill, init, at, narrow_cast, push_back, structure_cast,
// to_unsigned, to_dim, comparison (== != < <= > >=), vector (+|-|*) dim} and fcppt::math::dim::{arithmetic, contents,
// null, fill, init, narrow_cast, push_back, to_vector, comparison}.
// Scalars: int, every entry a full 32-bit symbolic value.  The TU is compiled with -fwrapv, i.e. the arithmetic is the
// ring Z/2^32 ("exact scalars"; Z -> Z/2^32 is a ring homomorphism, signed overflow - UB in ISO C++ - is not examined).
// The reference is a plain loop over arrays written in the harness.  Queries that z3's bit-blaster does not decide at
// once are decided through z3's sum-of-monomials normal form (harness option som=1).
// Outside the claim: operator/ and mod (division, not part of the statement), floating point functions (length,
// normalize, angle_between, atan2, ...), stream input/output, signed-overflow UB.
//@property C14
//@flags -fwrapv
#include "verif_api.h"
#include <fcppt/cast/size_fun.hpp>
#include <fcppt/cast/to_unsigned_fun.hpp>
#include <fcppt/math/size_constant.hpp>
#include <fcppt/math/size_type.hpp>
#include <fcppt/math/static_size.hpp>
#include <fcppt/math/dim/arithmetic.hpp>
#include <fcppt/math/dim/at.hpp>
#include <fcppt/math/dim/comparison.hpp>
#include <fcppt/math/dim/contents.hpp>
#include <fcppt/math/dim/fill.hpp>
#include <fcppt/math/dim/init.hpp>
#include <fcppt/math/dim/narrow_cast.hpp>
#include <fcppt/math/dim/null.hpp>
#include <fcppt/math/dim/object_impl.hpp>
#include <fcppt/math/dim/push_back.hpp>
#include <fcppt/math/dim/static.hpp>
#include <fcppt/math/dim/to_vector.hpp>
#include <fcppt/math/vector/arithmetic.hpp>
#include <fcppt/math/vector/at.hpp>
#include <fcppt/math/vector/comparison.hpp>
#include <fcppt/math/vector/cross.hpp>
#include <fcppt/math/vector/dim.hpp>
#include <fcppt/math/vector/dot.hpp>
#include <fcppt/math/vector/fill.hpp>
#include <fcppt/math/vector/init.hpp>
#include <fcppt/math/vector/length_square.hpp>
#include <fcppt/math/vector/narrow_cast.hpp>
#include <fcppt/math/vector/null.hpp>
#include <fcppt/math/vector/object_impl.hpp>
#include <fcppt/math/vector/push_back.hpp>
#include <fcppt/math/vector/static.hpp>
#include <fcppt/math/vector/structure_cast.hpp>
#include <fcppt/math/vector/to_dim.hpp>
#include <fcppt/math/vector/to_unsigned.hpp>
#include <cstdint>
#include <type_traits>

namespace
{
using sz = fcppt::math::size_type;
template <sz N> struct arr { int c[N]; };
template <sz N> arr<N> fresh(char const *const n) { arr<N> a; for (sz i = 0; i < N; ++i) a.c[i] = static_cast<int>(verif_u32(n)); return a; }

// a view storage (as in test/math/vector/view_storage.cpp): the vector's elements live in a caller-owned array
template <typename T, sz N>
class view_storage
{
public:
  using value_type = T;
  using size_type = fcppt::math::size_type;
  using storage_size = fcppt::math::static_size<N>;
  using pointer = value_type *;
  using reference = value_type &;
  using const_reference = value_type const &;
  explicit view_storage(pointer const _data) : data_(_data) {}
  reference operator[](size_type const _index) { return data_[_index]; }
  const_reference operator[](size_type const _index) const { return data_[_index]; }
private:
  pointer data_;
};

template <sz N> using svec = fcppt::math::vector::static_<int, N>;
template <sz N> using vvec = fcppt::math::vector::object<int, N, view_storage<int, N>>;
template <sz N> using sdim = fcppt::math::dim::static_<int, N>;
template <sz N> using vdim = fcppt::math::dim::object<int, N, view_storage<int, N>>;

struct st_tag {};
struct vw_tag {};
template <sz N> svec<N> mk(st_tag, arr<N> &a) { return fcppt::math::vector::init<svec<N>>([&a]<sz I>(fcppt::math::size_constant<I>) { return a.c[I]; }); }
template <sz N> vvec<N> mk(vw_tag, arr<N> &a) { return vvec<N>{view_storage<int, N>{a.c}}; }
template <sz N> sdim<N> mkd(st_tag, arr<N> &a) { return fcppt::math::dim::init<sdim<N>>([&a]<sz I>(fcppt::math::size_constant<I>) { return a.c[I]; }); }
template <sz N> vdim<N> mkd(vw_tag, arr<N> &a) { return vdim<N>{view_storage<int, N>{a.c}}; }

template <sz N, typename V>
void expect(V const &v, arr<N> const &e, char const *const what)
{
  static_assert(V::static_size::value == N, "result dimension");
  for (sz i = 0; i < N; ++i) verif_assert(v.get_unsafe(i) == e.c[i], what);
}
template <sz N, typename F> arr<N> zip(arr<N> const &a, arr<N> const &b, F const f) { arr<N> r; for (sz i = 0; i < N; ++i) r.c[i] = f(a.c[i], b.c[i]); return r; }
template <sz N, typename F> arr<N> each(arr<N> const &a, F const f) { arr<N> r; for (sz i = 0; i < N; ++i) r.c[i] = f(a.c[i]); return r; }

template <sz N>
int lex(arr<N> const &a, arr<N> const &b) // -1, 0, 1
{
  int r{0};
  for (sz i = N; i-- > 0;) r = a.c[i] < b.c[i] ? -1 : (a.c[i] > b.c[i] ? 1 : r);
  return r;
}

// ---- vector (x) vector, vector (x) scalar, for operand storages S1, S2
template <sz N, typename S1, typename S2>
void vec_ops()
{
  arr<N> A{fresh<N>("a")}, B{fresh<N>("b")};
  arr<N> const A0{A}, B0{B};
  int const s{static_cast<int>(verif_u32("s"))};
  auto const a{mk<N>(S1{}, A)};
  auto const b{mk<N>(S2{}, B)};
  expect<N>(a + b, zip(A0, B0, [](int x, int y) { return x + y; }), "vector + vector is component-wise");
  expect<N>(a - b, zip(A0, B0, [](int x, int y) { return x - y; }), "vector - vector is component-wise");
  expect<N>(a * b, zip(A0, B0, [](int x, int y) { return x * y; }), "vector * vector is component-wise");
  expect<N>(-a, each(A0, [](int x) { return -x; }), "unary minus negates every component");
  expect<N>(a * s, each(A0, [s](int x) { return x * s; }), "vector * scalar");
  expect<N>(s * a, each(A0, [s](int x) { return s * x; }), "scalar * vector");
  int d{0};
  for (sz i = 0; i < N; ++i) d += A0.c[i] * B0.c[i];
  verif_out("dot", static_cast<std::uint32_t>(d));
  verif_assert(fcppt::math::vector::dot(a, b) == d, "dot = sum of component products");
  int l{0};
  for (sz i = 0; i < N; ++i) l += A0.c[i] * A0.c[i];
  verif_assert(fcppt::math::vector::length_square(a) == l, "length_square = sum of squares");
  verif_assert(fcppt::math::vector::dot(a, b) == fcppt::math::vector::dot(b, a), "dot is symmetric");
  if constexpr (N == 3)
  {
    arr<3> const c{{A0.c[1] * B0.c[2] - A0.c[2] * B0.c[1], A0.c[2] * B0.c[0] - A0.c[0] * B0.c[2], A0.c[0] * B0.c[1] - A0.c[1] * B0.c[0]}};
    auto const cr{fcppt::math::vector::cross(a, b)};
    expect<3>(cr, c, "cross product components");
    expect<3>(fcppt::math::vector::cross(b, a), each(c, [](int x) { return -x; }), "cross is anti-commutative");
    verif_assert(fcppt::math::vector::dot(a, cr) == 0 && fcppt::math::vector::dot(b, cr) == 0, "cross product is orthogonal to both factors");
    int const la{fcppt::math::vector::length_square(a)}, lb{fcppt::math::vector::length_square(b)}, ab{fcppt::math::vector::dot(a, b)};
    verif_assert(fcppt::math::vector::length_square(cr) == la * lb - ab * ab, "Lagrange identity |a x b|^2 = |a|^2 |b|^2 - (a.b)^2");
  }
  // module laws through the real operators
  arr<N> C{fresh<N>("c")};
  auto const c{mk<N>(S1{}, C)};
  verif_assert((a + b) + c == a + (b + c), "vector + is associative");
  verif_assert(a + b == b + a, "vector + is commutative");
  verif_assert((a + b) * s == a * s + b * s, "scalar multiplication distributes over +");
  verif_assert(fcppt::math::vector::dot(a + c, b) == fcppt::math::vector::dot(a, b) + fcppt::math::vector::dot(c, b), "dot is additive in the first argument");
  verif_assert(fcppt::math::vector::dot(a * s, b) == s * fcppt::math::vector::dot(a, b), "dot is homogeneous");
  verif_assert(a - a == fcppt::math::vector::null<svec<N>>(), "a - a = null");
  // comparison against the lexicographic order of the arrays
  int const o{lex(A0, B0)};
  verif_out("order", static_cast<std::uint32_t>(o));
  verif_assert((a == b) == (o == 0), "== <=> all components equal");
  verif_assert((a != b) == (o != 0), "!= is the negation of ==");
  // (operator< is declared for two different storages but does not compile then: detail::array_less takes two
  //  arguments of one type - so the order is examined for equal storages only)
  if constexpr (std::is_same_v<S1, S2>)
  {
    verif_assert((a < b) == (o < 0), "< is lexicographic");
    verif_assert((a <= b) == (o <= 0), "<= is lexicographic");
    verif_assert((a > b) == (o > 0), "> is lexicographic");
    verif_assert((a >= b) == (o >= 0), ">= is lexicographic");
  }
  // the operands are unchanged
  for (sz i = 0; i < N; ++i) verif_assert(A.c[i] == A0.c[i] && B.c[i] == B0.c[i] && a.get_unsafe(i) == A0.c[i] && b.get_unsafe(i) == B0.c[i], "operators do not modify their operands");
  verif_reach("vec_ops-end");
}

// ---- compound assignment (through a view the caller's array is updated)
template <sz N, typename S1, typename S2>
void vec_assign()
{
  arr<N> A{fresh<N>("a")}, B{fresh<N>("b")};
  arr<N> const A0{A}, B0{B};
  int const s{static_cast<int>(verif_u32("s"))};
  unsigned const op{verif_u8("op")};
  verif_assume(op < 5);
  auto a{mk<N>(S1{}, A)};
  auto const b{mk<N>(S2{}, B)};
  arr<N> e;
  switch (op)
  {
  case 0: a += b; e = zip(A0, B0, [](int x, int y) { return x + y; }); break;
  case 1: a -= b; e = zip(A0, B0, [](int x, int y) { return x - y; }); break;
  case 2: a *= b; e = zip(A0, B0, [](int x, int y) { return x * y; }); break;
  case 3: a *= s; e = each(A0, [s](int x) { return x * s; }); break;
  default: a = b; e = B0; break;
  }
  expect<N>(a, e, "compound assignment updates every component");
  // (view = view of the same storage type is the implicit copy assignment: it rebinds the view and is not examined here)
  if constexpr (std::is_same_v<S1, vw_tag>)
    if (op != 4 || !std::is_same_v<S1, S2>)
      for (sz i = 0; i < N; ++i) verif_assert(A.c[i] == e.c[i], "compound assignment through a view updates the viewed array");
  for (sz i = 0; i < N; ++i) verif_assert(B.c[i] == B0.c[i], "right operand unchanged");
  // element access
  a.get_unsafe(N - 1) = s;
  verif_assert(fcppt::math::vector::at<N - 1>(a) == s, "get_unsafe / at<I> address the same element");
  a.x() = 7;
  verif_assert(a.get_unsafe(0) == 7, "x() is element 0");
  if constexpr (N >= 2) { a.y() = 8; verif_assert(a.get_unsafe(1) == 8, "y() is element 1"); }
  if constexpr (N >= 3) { a.z() = 9; verif_assert(a.get_unsafe(2) == 9, "z() is element 2"); }
  if constexpr (N >= 4) { a.w() = 10; verif_assert(a.get_unsafe(3) == 10, "w() is element 3"); }
  verif_reach("vec_assign-end");
}

// ---- builders and casts
template <sz N, typename S1>
void vec_build()
{
  arr<N> A{fresh<N>("a")};
  arr<N> const A0{A};
  int const s{static_cast<int>(verif_u32("s"))};
  auto const a{mk<N>(S1{}, A)};
  expect<N>(fcppt::math::vector::null<svec<N>>(), each(A0, [](int) { return 0; }), "null() is all zero");
  expect<N>(fcppt::math::vector::fill<svec<N>>(s), each(A0, [s](int) { return s; }), "fill(s) is all s");
  expect<N>(fcppt::math::vector::init<svec<N>>([&A0]<sz I>(fcppt::math::size_constant<I>) { return A0.c[I] + static_cast<int>(I); }), [&] { arr<N> r; for (sz i = 0; i < N; ++i) r.c[i] = A0.c[i] + static_cast<int>(i); return r; }(), "init calls the function with every index");
  svec<N> const copy{a};
  expect<N>(copy, A0, "conversion from another storage copies the components");
  {
    arr<N + 1> e;
    for (sz i = 0; i < N; ++i) e.c[i] = A0.c[i];
    e.c[N] = s;
    expect<N + 1>(fcppt::math::vector::push_back(a, s), e, "push_back appends one component");
  }
  if constexpr (N >= 2)
  {
    arr<N - 1> e;
    for (sz i = 0; i + 1 < N; ++i) e.c[i] = A0.c[i];
    expect<N - 1>(fcppt::math::vector::narrow_cast<svec<N - 1>>(a), e, "narrow_cast drops the last component");
    expect<N>(fcppt::math::vector::push_back(fcppt::math::vector::narrow_cast<svec<N - 1>>(a), A0.c[N - 1]), A0, "push_back undoes narrow_cast");
  }
  auto const wide{fcppt::math::vector::structure_cast<fcppt::math::vector::static_<long, N>, fcppt::cast::size_fun>(a)};
  auto const uns{fcppt::math::vector::to_unsigned(a)};
  for (sz i = 0; i < N; ++i)
  {
    verif_assert(wide.get_unsafe(i) == static_cast<long>(A0.c[i]), "structure_cast<long, size_fun> converts every component");
    verif_assert(uns.get_unsafe(i) == static_cast<unsigned>(A0.c[i]), "to_unsigned converts every component");
  }
  // vector <-> dim
  auto const d{fcppt::math::vector::to_dim(a)};
  expect<N>(d, A0, "to_dim keeps the components");
  expect<N>(fcppt::math::dim::to_vector(d), A0, "to_vector undoes to_dim");
  arr<N> B{fresh<N>("b")};
  arr<N> const B0{B};
  auto const bd{mkd<N>(S1{}, B)};
  expect<N>(a + bd, zip(A0, B0, [](int x, int y) { return x + y; }), "vector + dim is component-wise");
  expect<N>(a - bd, zip(A0, B0, [](int x, int y) { return x - y; }), "vector - dim is component-wise");
  expect<N>(a * bd, zip(A0, B0, [](int x, int y) { return x * y; }), "vector * dim is component-wise");
  verif_reach("vec_build-end");
}

// ---- dim
template <sz N, typename S1, typename S2>
void dim_ops()
{
  arr<N> A{fresh<N>("a")}, B{fresh<N>("b")};
  arr<N> const A0{A}, B0{B};
  int const s{static_cast<int>(verif_u32("s"))};
  auto const a{mkd<N>(S1{}, A)};
  auto const b{mkd<N>(S2{}, B)};
  expect<N>(a + b, zip(A0, B0, [](int x, int y) { return x + y; }), "dim + dim is component-wise");
  expect<N>(a - b, zip(A0, B0, [](int x, int y) { return x - y; }), "dim - dim is component-wise");
  expect<N>(a * b, zip(A0, B0, [](int x, int y) { return x * y; }), "dim * dim is component-wise");
  expect<N>(-a, each(A0, [](int x) { return -x; }), "dim unary minus");
  expect<N>(a * s, each(A0, [s](int x) { return x * s; }), "dim * scalar");
  expect<N>(s * a, each(A0, [s](int x) { return s * x; }), "scalar * dim");
  int p{1};
  for (sz i = 0; i < N; ++i) p *= A0.c[i];
  verif_assert(fcppt::math::dim::contents(a) == p, "contents = product of the components");
  expect<N>(fcppt::math::dim::null<sdim<N>>(), each(A0, [](int) { return 0; }), "dim null() is all zero");
  expect<N>(fcppt::math::dim::fill<sdim<N>>(s), each(A0, [s](int) { return s; }), "dim fill(s) is all s");
  {
    arr<N + 1> e;
    for (sz i = 0; i < N; ++i) e.c[i] = A0.c[i];
    e.c[N] = s;
    expect<N + 1>(fcppt::math::dim::push_back(a, s), e, "dim push_back appends one component");
  }
  if constexpr (N >= 2)
  {
    arr<N - 1> e;
    for (sz i = 0; i + 1 < N; ++i) e.c[i] = A0.c[i];
    expect<N - 1>(fcppt::math::dim::narrow_cast<sdim<N - 1>>(a), e, "dim narrow_cast drops the last component");
  }
  verif_assert(fcppt::math::dim::at<N - 1>(a) == A0.c[N - 1] && a.w() == A0.c[0], "dim at<I> / w()");
  if constexpr (N >= 2) verif_assert(a.h() == A0.c[1], "dim h()");
  if constexpr (N >= 3) verif_assert(a.d() == A0.c[2], "dim d()");
  int const o{lex(A0, B0)};
  verif_assert((a == b) == (o == 0), "dim == <=> all components equal");
  verif_assert((a != b) == (o != 0), "dim != is the negation of ==");
  if constexpr (std::is_same_v<S1, S2>)
  {
    verif_assert((a < b) == (o < 0), "dim < is lexicographic");
    verif_assert((a <= b) == (o <= 0) && (a > b) == (o > 0) && (a >= b) == (o >= 0), "dim <=, >, >= are lexicographic");
  }
  sdim<N> t{a};
  t += b;
  expect<N>(t, zip(A0, B0, [](int x, int y) { return x + y; }), "dim +=");
  t -= b;
  expect<N>(t, A0, "dim -= undoes +=");
  t *= b;
  expect<N>(t, zip(A0, B0, [](int x, int y) { return x * y; }), "dim *= dim");
  t *= s;
  expect<N>(t, zip(A0, B0, [s](int x, int y) { return x * y * s; }), "dim *= scalar");
  verif_reach("dim_ops-end");
}
}

#define H(name, ...) VERIF_HARNESS(name) { __VA_ARGS__; }
#define ROWN(N) \
  H(h_vec_ops_##N##_ss, vec_ops<N, st_tag, st_tag>()) H(h_vec_ops_##N##_vv, vec_ops<N, vw_tag, vw_tag>()) H(h_vec_ops_##N##_sv, vec_ops<N, st_tag, vw_tag>()) \
  H(h_vec_assign_##N##_ss, vec_assign<N, st_tag, st_tag>()) H(h_vec_assign_##N##_vv, vec_assign<N, vw_tag, vw_tag>()) H(h_vec_assign_##N##_sv, vec_assign<N, st_tag, vw_tag>()) \
  H(h_vec_assign_##N##_vs, vec_assign<N, vw_tag, st_tag>()) \
  H(h_vec_build_##N##_s, vec_build<N, st_tag>()) H(h_vec_build_##N##_v, vec_build<N, vw_tag>()) \
  H(h_dim_ops_##N##_ss, dim_ops<N, st_tag, st_tag>()) H(h_dim_ops_##N##_vv, dim_ops<N, vw_tag, vw_tag>()) H(h_dim_ops_##N##_sv, dim_ops<N, st_tag, vw_tag>())
ROWN(1) ROWN(2) ROWN(3) ROWN(4)
//@harness h_vec_ops_{N}_{S} for N in 1,2,3,4 for S in ss,vv,sv tier=quick loop=40 som=1
//@harness h_vec_assign_{N}_{S} for N in 1,2,3,4 for S in ss,vv,sv,vs tier=quick loop=40 som=1
//@harness h_vec_build_{N}_{S} for N in 1,2,3,4 for S in s,v tier=quick loop=40 som=1
//@harness h_dim_ops_{N}_{S} for N in 1,2,3,4 for S in ss,vv,sv tier=quick loop=40 som=1
