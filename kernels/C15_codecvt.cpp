// C15 (part 3) - narrow/widen never silently truncate: the conversion loop of libs/core/impl/include/fcppt/impl/codecvt.hpp
// (behind fcppt::narrow_locale, fcppt::widen_locale, to/from_std_wstring_locale) against a CONTRACT MODEL of the facet.
// Real code: fcppt::impl::codecvt, fcppt::narrow_locale (src/narrow_locale.cpp), fcppt::widen_locale (src/widen_locale.cpp),
// fcppt::container::buffer::object (the growing output buffer).
//
// The facet std::codecvt<wchar_t,char,mbstate_t> is a virtual interface whose real implementation (glibc tables) has no IR.
// model_facet below is a kernel-defined subclass that behaves as [locale.codecvt.virtuals] prescribes, for ALL stateless
// variable-width encodings with 1..4 external units per character at once:
//   out: character c encodes to len(c) in [1,4] units unit(c,0..len-1)  (len, unit, err are uninterpreted functions of c);
//        converts greedily while the output space suffices; `partial` when the next character does not fit, `error` at a
//        character that has no encoding, `ok` when the whole input was converted; from_next/to_next as specified.
//   in:  a sequence starts with a lead unit b of seqlen(b) in [1,4] units and decodes to one wchar_t wc(sequence);
//        `partial` when the input ends inside a sequence (or no output space), `error` at an invalid lead unit.
//        h_widen_absorb: variant where the facet keeps an incomplete trailing sequence in mbstate_t and returns `ok`
//        (observed natively: libstdc++/glibc C.UTF-8, widen_locale("\xE2\x82") == L"" as success).
//   `noconv` is not modelled: the standard only allows it when internT and externT are the same type.
// Engine build: std::use_facet<codecvt_type>(locale) is redirected (//@stub) to return the model facet, the locale object
// is never inspected; the base-class constructor/destructor (libstdc++.so) are redirected to no-ops.  Native replay build:
// a real std::locale carrying the model facet, the real use_facet.
// Oracle (property statement): the conversion returns the COMPLETE result (concatenation of the encodings of all input
// characters, in order) or reports failure; it reports failure exactly when no complete result exists (an unencodable /
// invalid character, or an input that ends inside a multi-unit sequence).  The engine's bounds checks cover "never writes
// outside the buffer's write area" (the model facet fills [to,to_end) completely whenever the contract allows it).
//
// Outside the claim: the real UTF-8 tables of glibc/libstdc++ (what len/unit/seqlen/wc actually are), stateful encodings,
// fcppt::narrow/widen with the global locale, integer/float <-> text (output_to_string/extract_from_string/insert/extract:
// iostreams + num_put/num_get live in libstdc++.so), enum and vector/dim stream << / >>.
//@property C15
//@stub ^_ZSt9use_facetISt7codecvtIwc11__mbstate_tEERKT_RKSt6locale$ verif_use_facet
//@stub ^_ZNSt7codecvtIwc11__mbstate_tEC[12]Em$ verif_facet_ctor
//@stub ^_ZNSt7codecvtIwc11__mbstate_tED[12]Ev$ verif_facet_dtor
#include "verif_api.h"
#include <fcppt/narrow_locale.hpp>
#include <fcppt/optional_std_string.hpp>
#include <fcppt/widen_locale.hpp>
#include <fcppt/impl/codecvt.hpp>
#include <fcppt/impl/codecvt_type.hpp>
#include <fcppt/optional/object_impl.hpp>
#include "libs/core/src/narrow_locale.cpp"
#include "libs/core/src/widen_locale.cpp"
#include <cstdint>
#include <locale>
#include <string>
#include <string_view>

namespace
{
using base = fcppt::impl::codecvt_type;

// the encoding, as uninterpreted functions of the character
unsigned out_len(wchar_t const c) { return 1U + static_cast<unsigned>(verif_uf1(1, static_cast<std::uint32_t>(c)) & 3U); }
bool out_err(wchar_t const c) { return (verif_uf1(2, static_cast<std::uint32_t>(c)) & 1U) != 0; }
char out_unit(wchar_t const c, unsigned const j) { return static_cast<char>(verif_uf2(3, static_cast<std::uint32_t>(c), j)); }
unsigned in_len(char const b) { return 1U + static_cast<unsigned>(verif_uf1(4, static_cast<unsigned char>(b)) & 3U); }
bool in_err(char const b) { return (verif_uf1(5, static_cast<unsigned char>(b)) & 1U) != 0; }
wchar_t in_wc(char const *const p, unsigned const len)
{
  std::uint64_t pack{len};
  for (unsigned j = 0; j < len; ++j) pack = (pack << 8U) | static_cast<unsigned char>(p[j]);
  return static_cast<wchar_t>(verif_uf1(6, pack));
}

unsigned g_calls = 0;
// h_widen_absorb only: an input that ends inside a sequence is taken into the shift state and `ok` is returned with all input
// consumed - what libstdc++'s codecvt<wchar_t,char,mbstate_t>::do_in does on glibc (mbsnrtowcs keeps the partial character
// in mbstate_t); the caller can see it through std::mbsinit(&state) == 0
bool g_absorb = false;
// libstdc++'s do_out / do_in (codecvt_members.cc: `while (from_next < from_end && to_next < to_end && ret == ok)`) return `ok`
// WITHOUT any progress when they are called with an EMPTY output range and input is left (natively, C.UTF-8:
// out(L"\u00e9a", room 0) -> ok, consumed 0, written 0; in("\xc3\xa9" "a", room 0) -> ok, consumed 0).  With g_empty_ok the
// model facet does the same, exactly there; the flag is a symbolic input of every harness, so both behaviours are explored.
// A caller must therefore never trust `ok` alone: the oracles below always demand the conversion of the WHOLE input.
bool g_empty_ok = false;

struct model_facet : base
{
  model_facet() : base(std::size_t{0}) {}
  result do_out(state_type &, wchar_t const *const from, wchar_t const *const from_end, wchar_t const *&from_next, char *const to,
                char *const to_end, char *&to_next) const override
  {
    ++g_calls;
    if (to == to_end && from != from_end && g_empty_ok) { from_next = from; to_next = to; return ok; }
    wchar_t const *f{from};
    char *t{to};
    result r{ok};
    while (f != from_end)
    {
      if (out_err(*f)) { r = error; break; }
      unsigned const len{out_len(*f)};
      if (static_cast<unsigned long>(to_end - t) < len) { r = partial; break; }
      for (unsigned j = 0; j < len; ++j) *t++ = out_unit(*f, j);
      ++f;
    }
    from_next = f;
    to_next = t;
    return r;
  }
  result do_in(state_type &st, char const *const from, char const *const from_end, char const *&from_next, wchar_t *const to,
               wchar_t *const to_end, wchar_t *&to_next) const override
  {
    ++g_calls;
    if (to == to_end && from != from_end && g_empty_ok) { from_next = from; to_next = to; return ok; }
    char const *f{from};
    wchar_t *t{to};
    result r{ok};
    while (f != from_end)
    {
      if (in_err(*f)) { r = error; break; }
      unsigned const len{in_len(*f)};
      if (static_cast<unsigned long>(from_end - f) < len) // input ends inside a sequence
      {
        if (g_absorb) { st.__count = static_cast<int>(from_end - f); f = from_end; }
        else r = partial;
        break;
      }
      if (t == to_end) { r = partial; break; }
      *t++ = in_wc(f, len);
      f += len;
    }
    from_next = f;
    to_next = t;
    return r;
  }
  // the remaining virtuals, with the values such an encoding has (the base versions live in libstdc++.so)
  result do_unshift(state_type &, char *const to, char *, char *&to_next) const override { to_next = to; return noconv; }
  int do_encoding() const noexcept override { return 0; }
  bool do_always_noconv() const noexcept override { return false; }
  int do_max_length() const noexcept override { return 4; }
  int do_length(state_type &, char const *const from, char const *const end, std::size_t const max) const override
  {
    char const *f{from};
    std::size_t n{0};
    while (f != end && n < max && !in_err(*f) && static_cast<unsigned long>(end - f) >= in_len(*f)) { f += in_len(*f); ++n; }
    return static_cast<int>(f - from);
  }
};

base const *g_facet = nullptr;

#ifdef VERIF_NATIVE
struct env
{
  std::locale loc{std::locale::classic(), new model_facet};
  std::locale const &locale() const { return loc; }
};
#else
struct env
{
  model_facet fac{};
  alignas(8) unsigned char locbuf[sizeof(std::locale)] = {};
  env() { g_facet = &fac; }
  std::locale const &locale() const { return *reinterpret_cast<std::locale const *>(locbuf); }
};
#endif

constexpr unsigned maxn = 4;

struct narrow_case
{
  wchar_t in[maxn];
  unsigned n;
  bool fail;
  char expect[4 * maxn];
  unsigned elen;
};

narrow_case make_narrow()
{
  narrow_case c{};
  g_empty_ok = verif_u8("empty_ok") != 0;
  c.n = static_cast<unsigned>(verif_param("n"));
  for (unsigned i = 0; i < c.n; ++i) c.in[i] = static_cast<wchar_t>(verif_u32("c"));
  // reference: the concatenation of the encodings, or failure at the first character without an encoding
  for (unsigned i = 0; i < c.n && !c.fail; ++i)
  {
    if (out_err(c.in[i])) c.fail = true;
    else
      for (unsigned j = 0; j < out_len(c.in[i]); ++j) c.expect[c.elen++] = out_unit(c.in[i], j);
  }
  return c;
}

void narrow()
{
  narrow_case const c{make_narrow()};
  env const e{};
  fcppt::optional_std_string const r{fcppt::narrow_locale(std::wstring_view{c.in, c.n}, e.locale())};
  verif_out("has", r.has_value());
  verif_out("calls", g_calls);
  verif_assert(!(c.fail && r.has_value()), "narrow_locale reports failure when a character has no encoding");
  verif_assert(!(!c.fail && !r.has_value()), "narrow_locale succeeds when every character has an encoding");
  if (r.has_value() && !c.fail)
  {
    std::string const &s{r.get_unsafe()};
    verif_out("size", s.size());
    verif_assert(s.size() == c.elen, "narrow_locale: a successful result is complete (no truncation)");
    if (s.size() == c.elen)
      for (unsigned k = 0; k < c.elen; ++k) verif_assert(s[k] == c.expect[k], "narrow_locale: the result is the concatenation of the encodings");
  }
  verif_reach("narrow-end");
}

// the converted prefix fills the initial write area (= number of input units) EXACTLY and more input follows: the first k
// characters encode to n units in total, k < n; the next facet call then sees an empty or freshly grown write area
void narrow_exact()
{
  narrow_case const c{make_narrow()};
  unsigned const k{static_cast<unsigned>(verif_param("k"))};
  unsigned sum{0};
  for (unsigned i = 0; i < k; ++i) sum += out_len(c.in[i]);
  verif_assume(!c.fail && sum == c.n);
  verif_assume(g_empty_ok);
  verif_reach("prefix-fills-write-area-exactly");
  env const e{};
  fcppt::optional_std_string const r{fcppt::narrow_locale(std::wstring_view{c.in, c.n}, e.locale())};
  verif_out("calls", g_calls);
  verif_assert(r.has_value(), "narrow_locale (prefix fills the write area exactly): succeeds");
  if (r.has_value())
  {
    std::string const &s{r.get_unsafe()};
    verif_assert(s.size() == c.elen, "narrow_locale (prefix fills the write area exactly): the result is complete, nothing after the prefix is dropped");
    if (s.size() == c.elen)
      for (unsigned j = 0; j < c.elen; ++j) verif_assert(s[j] == c.expect[j], "narrow_locale (prefix fills the write area exactly): the result is the concatenation of the encodings");
  }
}

struct widen_case
{
  char in[maxn];
  unsigned n;
  bool fail;
  wchar_t expect[maxn];
  unsigned elen;
};

widen_case make_widen()
{
  widen_case c{};
  g_empty_ok = verif_u8("empty_ok") != 0;
  c.n = static_cast<unsigned>(verif_param("n"));
  for (unsigned i = 0; i < c.n; ++i) c.in[i] = static_cast<char>(verif_u8("b"));
  // reference: decode sequence by sequence; an invalid lead unit or an input ending inside a sequence has no complete result
  unsigned i{0};
  while (i < c.n && !c.fail)
  {
    unsigned const len{in_len(c.in[i])};
    if (in_err(c.in[i]) || c.n - i < len) c.fail = true;
    else { c.expect[c.elen++] = in_wc(c.in + i, len); i += len; }
  }
  return c;
}

void widen_impl(bool const absorb)
{
  g_absorb = absorb;
  widen_case const c{make_widen()};
  env const e{};
  fcppt::optional::object<std::wstring> const r{fcppt::impl::codecvt<wchar_t>(std::string_view{c.in, c.n}, e.locale(), &base::in)};
  verif_out("has", r.has_value());
  verif_out("calls", g_calls);
  verif_assert(!(c.fail && r.has_value()), absorb ? "codecvt(in) reports failure when the input ends inside a sequence that the facet absorbed into the shift state"
                                                  : "codecvt(in) reports failure for an invalid or incomplete sequence");
  verif_assert(!(!c.fail && !r.has_value()), "codecvt(in) succeeds on a well-formed input");
  if (r.has_value() && !c.fail)
  {
    std::wstring const &s{r.get_unsafe()};
    verif_out("size", s.size());
    verif_assert(s.size() == c.elen, "codecvt(in): a successful result is complete (no truncation)");
    if (s.size() == c.elen)
      for (unsigned k = 0; k < c.elen; ++k) verif_assert(s[k] == c.expect[k], "codecvt(in): the result is the sequence of decoded characters");
  }
  verif_reach("widen-impl-end");
}

// the public function: returns the complete string on well-formed input (no exception allowed) ...
void widen_ok()
{
  widen_case const c{make_widen()};
  verif_assume(!c.fail);
  env const e{};
  std::wstring const s{fcppt::widen_locale(std::string_view{c.in, c.n}, e.locale())};
  verif_assert(s.size() == c.elen, "widen_locale: the result is complete (no truncation)");
  if (s.size() == c.elen)
    for (unsigned k = 0; k < c.elen; ++k) verif_assert(s[k] == c.expect[k], "widen_locale: the result is the sequence of decoded characters");
  verif_reach("widen-ok-end");
}

// ... and must throw (std::runtime_error, listed in throws=) instead of returning when no complete result exists
void widen_fail()
{
  widen_case const c{make_widen()};
  verif_assume(c.fail);
  verif_reach("widen-fail-called");
  env const e{};
  std::wstring const s{fcppt::widen_locale(std::string_view{c.in, c.n}, e.locale())};
  verif_out("size", s.size());
  verif_assert(false, "widen_locale returns normally although the input has no complete conversion");
}
}

#ifndef VERIF_NATIVE
extern "C" base const &verif_use_facet(std::locale const &) { return *g_facet; }
extern "C" void verif_facet_ctor(void *, std::size_t) {}
extern "C" void verif_facet_dtor(void *) {}
#endif

VERIF_HARNESS(h_narrow) { narrow(); }
VERIF_HARNESS(h_narrow_exact) { narrow_exact(); }
VERIF_HARNESS(h_widen_impl) { widen_impl(false); }
VERIF_HARNESS(h_widen_absorb) { widen_impl(true); }
VERIF_HARNESS(h_widen_ok) { widen_ok(); }
VERIF_HARNESS(h_widen_fail) { widen_fail(); }
//@harness h_narrow param n=0..3 tier=quick loop=40
//@harness h_narrow_exact param n=2..4 param k=1..3 if k<n tier=quick loop=40
//@harness h_widen_impl param n=0..3 tier=quick loop=40
//@harness h_widen_absorb param n=1..3 tier=quick loop=40
//@harness h_widen_ok param n=0..3 tier=quick loop=40
//@harness h_widen_fail param n=1..3 tier=quick loop=40 throws=_ZTISt13runtime_error
//@harness h_narrow param n=4 tier=thorough loop=40
//@harness h_widen_impl param n=4 tier=thorough loop=40
