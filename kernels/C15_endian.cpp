// C15 (part 1) - binary encodings round-trip: io::write / io::read, endianness::convert / swap / reverse_mem.
// Real code: fcppt::io::write, fcppt::io::read, fcppt::endianness::{convert,swap}, libs/core/src/endianness/reverse_mem.cpp.
//
// Stream layer.  io::write / io::read hand the converted object to std::ostream::write / std::istream::read, which live in
// libstdc++.so (no IR).  In the engine build those two members are redirected (//@stub) to the kernel-defined byte-buffer
// functions below, which implement their documented contract: write(p,n) appends n bytes; read(p,n) delivers n bytes, or -
// when fewer are available - delivers what is there and sets failbit|eofbit.  The stream object of the engine build is raw
// storage with a hand-made vtable prefix (only the virtual-base offset that basic_ios::operator bool needs, Itanium ABI).
// The native replay build (VERIF_NATIVE) uses a real std::stringstream, so every replayed path also validates the stub
// contract against the real libstdc++.
//
// Outside the claim: float/double/long double (no floating point in the engine; the code path is the same byte reversal),
// stream error states other than "too few bytes", and everything behind std::ostream::write/std::istream::read (buffering,
// sentry, locale) - replaced by the contract above.
//@property C15
//@stub ^_ZNSo5writeEPKcl$ verif_os_write
//@stub ^_ZNSi4readEPcl$ verif_is_read
#include "verif_api.h"
#include <fcppt/endianness/convert.hpp>
#include <fcppt/endianness/reverse_mem.hpp>
#include <fcppt/endianness/swap.hpp>
#include <fcppt/io/read.hpp>
#include <fcppt/io/write.hpp>
#include <fcppt/optional/object_impl.hpp>
#include "libs/core/src/endianness/reverse_mem.cpp"
#include <bit>
#include <cstdint>
#include <cstring>
#include <istream>
#include <ostream>
#include <sstream>
#include <string>
#include <type_traits>

static_assert(std::endian::native == std::endian::little, "the byte-order oracles below are written for a little-endian host");

namespace
{
using u8 = std::uint8_t; using u16 = std::uint16_t; using u32 = std::uint32_t; using u64 = std::uint64_t;
using i8 = std::int8_t; using i16 = std::int16_t; using i32 = std::int32_t; using i64 = std::int64_t;

constexpr unsigned cap = 24;
// byte store behind the stream
unsigned char g_bytes[cap];
unsigned g_size = 0; // bytes written so far
unsigned g_rpos = 0; // read position

#ifdef VERIF_NATIVE
struct stream_pair
{
  std::stringstream ss;
  std::ostream &os() { return ss; }
  std::istream &is() { return ss; }
  unsigned written() { return static_cast<unsigned>(ss.str().size()); }
  unsigned char byte(unsigned const i) { return static_cast<unsigned char>(ss.str()[i]); }
  // keep only the first k bytes for reading
  void truncate(unsigned const k) { ss.str(ss.str().substr(0, k)); ss.clear(); }
};
#else
// raw storage posing as std::ostream / std::istream; vptr[-3] is the offset of the virtual base basic_ios
long const g_os_vt[4] = {8, 0, 0, 0};
long const g_is_vt[4] = {16, 0, 0, 0};
// leading members of std::ios_base (libstdc++): vptr, precision, width, flags, exception mask, stream state
struct fake_ios { void const *vptr; long precision, width; int flags, exceptions, state; unsigned char rest[sizeof(std::ios) - 36]; };
struct fake_ostream { long const *vptr; fake_ios ios; };
struct fake_istream { long const *vptr; long gcount; fake_ios ios; };
static_assert(sizeof(fake_ostream) == sizeof(std::ostream) && sizeof(fake_istream) == sizeof(std::istream), "stream layout");
struct stream_pair
{
  fake_ostream o{&g_os_vt[3], fake_ios{}};
  fake_istream i{&g_is_vt[3], 0, fake_ios{}};
  stream_pair() { g_size = 0; g_rpos = 0; }
  std::ostream &os() { return *reinterpret_cast<std::ostream *>(&o); }
  std::istream &is() { return *reinterpret_cast<std::istream *>(&i); }
  unsigned written() { return g_size; }
  unsigned char byte(unsigned const k) { return g_bytes[k]; }
  void truncate(unsigned const k) { g_size = k; }
};
#endif
}

#ifndef VERIF_NATIVE
// contract of std::ostream::write on a good stream with an unbounded sink
extern "C" std::ostream &verif_os_write(std::ostream &s, char const *const p, std::streamsize const n)
{
  for (std::streamsize k = 0; k < n; ++k)
  {
    verif_assert(g_size < cap, "harness byte store large enough");
    g_bytes[g_size++] = static_cast<unsigned char>(p[k]);
  }
  return s;
}
// contract of std::istream::read: n bytes, or what is left plus failbit|eofbit
extern "C" std::istream &verif_is_read(std::istream &s, char *const p, std::streamsize const n)
{
  std::streamsize k = 0;
  for (; k < n && g_rpos < g_size; ++k) p[k] = static_cast<char>(g_bytes[g_rpos++]);
  if (k < n) reinterpret_cast<fake_istream &>(s).ios.state |= static_cast<int>(std::ios_base::failbit | std::ios_base::eofbit);
  return s;
}
#endif

namespace
{
template <typename T> T sym(char const *const n) { return static_cast<T>(verif_u64(n)); }
template <typename T> using uns = std::make_unsigned_t<T>;

// byte k (0 = first in memory / first written) of v in the given order, from the definition of the two orders
template <typename T>
unsigned char ref_byte(T const v, std::endian const e, unsigned const k)
{
  unsigned const sh{e == std::endian::big ? 8U * (static_cast<unsigned>(sizeof(T)) - 1U - k) : 8U * k};
  return static_cast<unsigned char>((static_cast<u64>(static_cast<uns<T>>(v)) >> sh) & 0xffU);
}

std::endian sym_endian()
{
  return verif_u8("big") != 0 ? std::endian::big : std::endian::little;
}

// write(v); read() = v; bytes in the documented order; two values in a row; short input => nothing
template <typename T>
void io_roundtrip()
{
  T const v{sym<T>("v")}, w{sym<T>("w")};
  std::endian const e{sym_endian()};
  stream_pair sp{};
  fcppt::io::write(sp.os(), v, e);
  fcppt::io::write(sp.os(), w, e);
  unsigned const n{static_cast<unsigned>(sizeof(T))};
  verif_assert(sp.written() == 2U * n, "io::write writes exactly sizeof(T) bytes per value");
  for (unsigned k = 0; k < n; ++k)
  {
    verif_assert(sp.byte(k) == ref_byte(v, e, k), "io::write: big endian = most significant byte first, little endian = least significant first");
    verif_assert(sp.byte(n + k) == ref_byte(w, e, k), "io::write: second value follows the first");
  }
  // only the first `avail` bytes can be read back
  unsigned const avail{verif_u8("avail")};
  verif_assume(avail <= 2U * n);
  sp.truncate(avail);
  fcppt::optional::object<T> const r1{fcppt::io::read<T>(sp.is(), e)};
  verif_out("r1", r1.has_value());
  verif_assert(r1.has_value() == (avail >= n), "io::read yields a value exactly when sizeof(T) bytes are available");
  if (r1.has_value())
  {
    verif_assert(r1.get_unsafe() == v, "io::read(io::write(v)) == v in the same byte order");
    fcppt::optional::object<T> const r2{fcppt::io::read<T>(sp.is(), e)};
    verif_assert(r2.has_value() == (avail >= 2U * n), "second io::read yields a value exactly when another sizeof(T) bytes are available");
    if (r2.has_value()) verif_assert(r2.get_unsafe() == w, "second io::read returns the second value");
  }
  verif_reach("io-end");
}

// reading in the other byte order gives the byte-reversed number
template <typename T>
void io_cross()
{
  T const v{sym<T>("v")};
  std::endian const e{sym_endian()};
  std::endian const other{e == std::endian::big ? std::endian::little : std::endian::big};
  stream_pair sp{};
  fcppt::io::write(sp.os(), v, e);
  fcppt::optional::object<T> const r{fcppt::io::read<T>(sp.is(), other)};
  verif_assert(r.has_value(), "io::read succeeds on a complete value");
  if (r.has_value())
    for (unsigned k = 0; k < sizeof(T); ++k)
      verif_assert(ref_byte(r.get_unsafe(), other, k) == ref_byte(v, e, k), "reading in the other order reinterprets the same bytes");
  verif_reach("io-cross-end");
}

template <typename T>
void conv()
{
  T const v{sym<T>("v")};
  T const s{fcppt::endianness::swap(v)};
  verif_out("swapped", static_cast<u64>(static_cast<uns<T>>(s)));
  verif_assert(fcppt::endianness::swap(s) == v, "endianness::swap twice is the identity");
  for (unsigned k = 0; k < sizeof(T); ++k)
    verif_assert(ref_byte(s, std::endian::little, k) == ref_byte(v, std::endian::big, k), "endianness::swap reverses the bytes");
  std::endian const e{sym_endian()};
  T const c{fcppt::endianness::convert(v, e)};
  unsigned char mem[sizeof(T)];
  std::memcpy(mem, &c, sizeof(T));
  for (unsigned k = 0; k < sizeof(T); ++k)
    verif_assert(mem[k] == ref_byte(v, e, k), "endianness::convert(v,e) has the memory layout of byte order e");
  verif_assert(fcppt::endianness::convert(c, e) == v, "endianness::convert is its own inverse (host->e->host)");
  verif_assert(fcppt::endianness::convert(v, std::endian::native) == v, "endianness::convert to the native order is the identity");
  verif_reach("conv-end");
}

// reverse_mem on a window [off, off+len) of a buffer: reversed inside, untouched outside
void reverse_mem()
{
  constexpr unsigned N{12};
  unsigned char b[N], orig[N];
  for (unsigned k = 0; k < N; ++k) orig[k] = b[k] = verif_u8("b");
  unsigned const off{static_cast<unsigned>(verif_param("off"))}, len{static_cast<unsigned>(verif_param("len"))};
  fcppt::endianness::reverse_mem(b + off, len);
  unsigned const j{verif_u8("j")};
  verif_assume(j < N);
  unsigned char const expected{j >= off && j < off + len ? orig[off + (len - 1U - (j - off))] : orig[j]};
  verif_assert(b[j] == expected, "reverse_mem reverses exactly the given window");
  fcppt::endianness::reverse_mem(b + off, len);
  verif_assert(b[j] == orig[j], "reverse_mem twice is the identity");
  verif_reach("reverse_mem-end");
}
}

#define H(name, ...) VERIF_HARNESS(name) { __VA_ARGS__; }
#define ROW(T) H(h_io_##T, io_roundtrip<T>()) H(h_iocross_##T, io_cross<T>()) H(h_conv_##T, conv<T>())
ROW(u8) ROW(u16) ROW(u32) ROW(u64) ROW(i8) ROW(i16) ROW(i32) ROW(i64)
//@harness h_io_{T} for T in u8,u16,u32,u64,i8,i16,i32,i64 tier=quick loop=40
//@harness h_iocross_{T} for T in u8,u16,u32,u64,i8,i16,i32,i64 tier=quick loop=40
//@harness h_conv_{T} for T in u8,u16,u32,u64,i8,i16,i32,i64 tier=quick loop=40
H(h_reverse_mem, reverse_mem())
//@harness h_reverse_mem param off=0..2 param len=0..9 tier=quick loop=40
