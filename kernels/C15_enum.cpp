// C15 (part 2) - enum to_string / from_string round trip.
// Real code: fcppt::enum_::{to_string,from_string,from_string_impl,names,index_of_array}, algorithm::index_of/find_opt,
// and the library's own customisation for fcppt::log::level (libs/log/src/log/level_to_string_impl.cpp).
// to_string is the customisation point (to_string_impl<Enum>::get); the test enums below specialise it with
// FCPPT_ENUM_TO_STRING_CASE exactly as test/enum/string.cpp and the documentation do.  from_string is the library default.
// Oracle: from_string(to_string(e)) == e for a symbolic enumerator; for a symbolic string (every byte symbolic, length a
// param) from_string returns e exactly when the string equals the documented name of e, else nothing.
// Outside the claim: stream << / >> of enums (enum/output.hpp, enum/input.hpp: iostreams are not executable here).
//@property C15
// non-PIE code generation: keeps clang from turning the name switch into a relative lookup table (llvm.load.relative)
//@flags -fno-pie -no-pie
#include "verif_api.h"
#include <fcppt/assert/unreachable.hpp>
#include <fcppt/enum/from_string.hpp>
#include <fcppt/enum/to_string.hpp>
#include <fcppt/enum/to_string_case.hpp>
#include <fcppt/enum/to_string_impl_fwd.hpp>
#include <fcppt/log/level.hpp>
#include <fcppt/log/level_to_string_impl.hpp>
#include <fcppt/optional/object_impl.hpp>
#include "libs/log/src/log/level_to_string_impl.cpp"
// FCPPT_ASSERT_UNREACHABLE (never reached for valid enumerators) needs these for linking the native replay build
#include "libs/core/src/assert/information.cpp"
#include "libs/core/src/from_std_string.cpp"
#include "libs/core/src/insert_extract_locale.cpp"
#include "libs/core/src/io/cerr.cpp"
#include <cstdint>
#include <string_view>

namespace
{
enum class test_enum { test1, test2, test3, fcppt_maximum = test3 };
// names that are prefixes of each other, a one-character name, names differing in the last character only
enum class colour { r, rg, rgb, rgx, x, fcppt_maximum = x };
// an enumerator whose documented name is the EMPTY string ("no suffix")
enum class suffix { none, k, m, fcppt_maximum = m };
}

namespace fcppt::enum_
{
template <>
struct to_string_impl<test_enum>
{
  static std::string_view get(test_enum const _val)
  {
    switch (_val)
    {
      FCPPT_ENUM_TO_STRING_CASE(test_enum, test1);
      FCPPT_ENUM_TO_STRING_CASE(test_enum, test2);
      FCPPT_ENUM_TO_STRING_CASE(test_enum, test3);
    }
    FCPPT_ASSERT_UNREACHABLE;
  }
};
template <>
struct to_string_impl<suffix>
{
  static std::string_view get(suffix const _val)
  {
    switch (_val)
    {
    case suffix::none: return std::string_view{""};
    case suffix::k: return std::string_view{"k"};
    case suffix::m: return std::string_view{"m"};
    }
    FCPPT_ASSERT_UNREACHABLE;
  }
};
template <>
struct to_string_impl<colour>
{
  static std::string_view get(colour const _val)
  {
    switch (_val)
    {
      FCPPT_ENUM_TO_STRING_CASE(colour, r);
      FCPPT_ENUM_TO_STRING_CASE(colour, rg);
      FCPPT_ENUM_TO_STRING_CASE(colour, rgb);
      FCPPT_ENUM_TO_STRING_CASE(colour, rgx);
      FCPPT_ENUM_TO_STRING_CASE(colour, x);
    }
    FCPPT_ASSERT_UNREACHABLE;
  }
};
}

namespace
{
// the documented names, enumerator value = index
template <typename E> struct names;
template <> struct names<suffix> { static constexpr char const *v[] = {"", "k", "m"}; static constexpr unsigned n = 3; };
template <> struct names<test_enum> { static constexpr char const *v[] = {"test1", "test2", "test3"}; static constexpr unsigned n = 3; };
template <> struct names<colour> { static constexpr char const *v[] = {"r", "rg", "rgb", "rgx", "x"}; static constexpr unsigned n = 5; };
template <> struct names<fcppt::log::level> { static constexpr char const *v[] = {"verbose", "debug", "info", "warning", "error", "fatal"}; static constexpr unsigned n = 6; };

bool same(char const *const name, char const *const s, unsigned const len)
{
  unsigned k = 0;
  for (; k < len; ++k)
    if (name[k] == '\0' || name[k] != s[k]) return false;
  return name[k] == '\0';
}

template <typename E>
void roundtrip()
{
  unsigned const i{verif_u8("e")};
  verif_assume(i < names<E>::n);
  E const e{static_cast<E>(i)};
  std::string_view const s{fcppt::enum_::to_string(e)};
  verif_out("len", s.size());
  verif_assert(same(names<E>::v[i], s.data(), static_cast<unsigned>(s.size())), "to_string(e) is the documented name of e");
  fcppt::optional::object<E> const r{fcppt::enum_::from_string<E>(s)};
  verif_assert(r.has_value(), "from_string(to_string(e)) has a value");
  if (r.has_value()) verif_assert(r.get_unsafe() == e, "from_string(to_string(e)) == e");
  verif_reach("roundtrip-end");
}

template <typename E>
void parse()
{
  constexpr unsigned maxlen{8};
  char buf[maxlen + 1];
  unsigned const len{static_cast<unsigned>(verif_param("len"))};
  for (unsigned k = 0; k < len; ++k) buf[k] = static_cast<char>(verif_u8("ch"));
  fcppt::optional::object<E> const r{fcppt::enum_::from_string<E>(std::string_view{buf, len})};
  unsigned expected{names<E>::n}; // n = none
  for (unsigned i = 0; i < names<E>::n; ++i)
    if (expected == names<E>::n && same(names<E>::v[i], buf, len)) expected = i;
  verif_out("expected", expected);
  verif_assert(r.has_value() == (expected != names<E>::n), "from_string(s) has a value exactly when s is the name of an enumerator");
  if (r.has_value()) verif_assert(static_cast<unsigned>(r.get_unsafe()) == expected, "from_string(s) is the enumerator named s");
  verif_reach("parse-end");
}
}

VERIF_HARNESS(h_enum_rt_test) { roundtrip<test_enum>(); }
VERIF_HARNESS(h_enum_rt_colour) { roundtrip<colour>(); }
VERIF_HARNESS(h_enum_rt_level) { roundtrip<fcppt::log::level>(); }
VERIF_HARNESS(h_enum_rt_suffix) { roundtrip<suffix>(); }
VERIF_HARNESS(h_enum_parse_suffix) { parse<suffix>(); }
VERIF_HARNESS(h_enum_parse_test) { parse<test_enum>(); }
VERIF_HARNESS(h_enum_parse_colour) { parse<colour>(); }
VERIF_HARNESS(h_enum_parse_level) { parse<fcppt::log::level>(); }
//@harness h_enum_rt_{E} for E in test,colour,level,suffix tier=quick loop=40
//@harness h_enum_parse_suffix param len=0..2 tier=quick loop=40
//@harness h_enum_parse_test param len=0..6 tier=quick loop=40
//@harness h_enum_parse_colour param len=0..4 tier=quick loop=40
//@harness h_enum_parse_level param len=0..8 tier=quick loop=40
