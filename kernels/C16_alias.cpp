// C16 (part 5) - ALIASING: helpers that take the searched / removed / inserted value by `T const &` are called with an
// argument that refers to an element of the very container they iterate or mutate.  The result must equal the result of the
// same call with an independent copy of that value (and the obvious specification).
// Real code: fcppt::algorithm::{remove, contains, find_opt, index_of, equal_range, binary_search, repeat, join_strings,
// split_string}, fcppt::container::{join, get_or_insert, get_or_insert_with_result, find_opt_mapped, find_opt, set_union,
// set_intersection, set_difference}.
// Inputs: n symbolic 32-bit elements (n a shape parameter), the aliased position i chosen by the solver (symbolic index).
// Why it matters: remove(c, c[i]) is implemented with std::remove_if, which moves elements while the predicate still runs -
// a predicate holding the reference instead of a copy would compare against a changing value.
// Also here: split_string / join_strings with LEADING empty pieces (string starting with the delimiter, only delimiters).
//@property C16
//@models rbtree
#include "verif_api.h"
#include <fcppt/algorithm/binary_search.hpp>
#include <fcppt/algorithm/contains.hpp>
#include <fcppt/algorithm/equal_range.hpp>
#include <fcppt/algorithm/find_opt.hpp>
#include <fcppt/algorithm/index_of.hpp>
#include <fcppt/algorithm/join_strings.hpp>
#include <fcppt/algorithm/remove.hpp>
#include <fcppt/algorithm/repeat.hpp>
#include <fcppt/algorithm/split_string.hpp>
#include <fcppt/container/find_opt.hpp>
#include <fcppt/container/find_opt_mapped.hpp>
#include <fcppt/container/get_or_insert.hpp>
#include <fcppt/container/get_or_insert_result.hpp>
#include <fcppt/container/get_or_insert_with_result.hpp>
#include <fcppt/container/join.hpp>
#include <fcppt/container/set_difference.hpp>
#include <fcppt/container/set_intersection.hpp>
#include <fcppt/container/set_union.hpp>
#include <fcppt/optional/object_impl.hpp>
#include <fcppt/optional/reference.hpp>
#include <cstdint>
#include <deque>
#include <iterator>
#include <list>
#include <map>
#include <set>
#include <string>
#include <utility>
#include <vector>

namespace
{
constexpr unsigned maxn = 6;
struct input
{
  int v[maxn];
  unsigned n;
  unsigned i; // aliased position, solver-chosen
};

input fresh_input()
{
  input in{};
  in.n = static_cast<unsigned>(verif_param("n"));
  for (unsigned k = 0; k < in.n; ++k) in.v[k] = static_cast<int>(verif_u32("x"));
  in.i = verif_u8("i");
  verif_assume(in.i < in.n);
  return in;
}

template <typename C>
C build(input const &in)
{
  C c{};
  for (unsigned k = 0; k < in.n; ++k) c.insert(c.end(), in.v[k]);
  return c;
}

template <typename C>
int const &element(C const &c, unsigned const i)
{
  return *std::next(c.begin(), static_cast<std::ptrdiff_t>(i));
}

template <typename C, typename T>
bool seq_eq(C const &c, T const *const exp, unsigned const n)
{
  if (static_cast<unsigned>(std::distance(c.begin(), c.end())) != n) return false;
  bool ok{true};
  unsigned k{0};
  for (auto const &e : c)
  {
    ok = ok & (e == exp[k]);
    ++k;
  }
  return ok;
}

// ---- remove(c, c[i])
template <typename C>
void alias_remove()
{
  input const in{fresh_input()};
  int const val{in.v[in.i]};
  int keep[maxn];
  unsigned nk{0};
  for (unsigned k = 0; k < in.n; ++k)
    if (in.v[k] != val) keep[nk++] = in.v[k];
  verif_out("kept", nk);
  C aliased{build<C>(in)}, copied{build<C>(in)};
  bool const r1{fcppt::algorithm::remove(aliased, element(aliased, in.i))};
  bool const r2{fcppt::algorithm::remove(copied, val)};
  verif_assert(r1 && r2, "remove(c, c[i]) removes something");
  verif_assert(seq_eq(aliased, keep, nk), "remove(c, c[i]): every element equal to the ORIGINAL c[i] is removed, the others remain in order");
  verif_assert(seq_eq(copied, keep, nk), "remove(c, copy of c[i]): specification");
  verif_assert(aliased == copied, "remove(c, c[i]) == remove(c, copy of c[i])");
  verif_reach("alias-remove-end");
}

// ---- searches with the needle referring into the haystack
template <typename C>
void alias_search()
{
  input const in{fresh_input()};
  int const val{in.v[in.i]};
  unsigned first{in.n};
  for (unsigned k = in.n; k > 0; --k)
    if (in.v[k - 1] == val) first = k - 1;
  C c{build<C>(in)};
  C const &cc{c};
  int const &needle{element(cc, in.i)};
  verif_assert(fcppt::algorithm::contains(cc, needle), "contains(c, c[i])");
  auto const f{fcppt::algorithm::find_opt(c, needle)};
  verif_assert(f.has_value(), "find_opt(c, c[i]) finds something");
  if (f.has_value()) verif_assert(static_cast<unsigned>(std::distance(c.begin(), f.get_unsafe())) == first, "find_opt(c, c[i]): the first element equal to c[i]");
  if constexpr (std::is_same_v<typename std::iterator_traits<typename C::iterator>::iterator_category, std::random_access_iterator_tag>)
  {
    auto const ix{fcppt::algorithm::index_of(cc, needle)};
    verif_assert(ix.has_value() && ix.get_unsafe() == first, "index_of(c, c[i]): the index of the first element equal to c[i]");
  }
  // join with itself
  int twice[3 * maxn];
  for (unsigned k = 0; k < in.n; ++k) { twice[k] = in.v[k]; twice[in.n + k] = in.v[k]; twice[2 * in.n + k] = in.v[k]; }
  verif_assert(seq_eq(fcppt::container::join(c, c), twice, 2 * in.n), "container::join(c, c): c twice");
  verif_assert(seq_eq(fcppt::container::join(c, c, c), twice, 3 * in.n), "container::join(c, c, c): c three times");
  verif_assert(seq_eq(c, in.v, in.n), "container::join(c, c) leaves c untouched");
  // repeat with a count taken from a container that the body shrinks
  unsigned calls{0};
  fcppt::algorithm::repeat(c.size(), [&c, &calls] { c.pop_back(); ++calls; });
  verif_assert(calls == in.n && c.empty(), "repeat(c.size(), body shrinking c): the count is read once");
  verif_reach("alias-search-end");
}

// ---- sorted: equal_range / binary_search with the value referring into the range
template <typename C>
void alias_sorted()
{
  input const in{fresh_input()};
  for (unsigned k = 0; k + 1 < in.n; ++k) verif_assume(in.v[k] <= in.v[k + 1]);
  int const val{in.v[in.i]};
  unsigned less{0}, leq{0};
  for (unsigned k = 0; k < in.n; ++k)
  {
    if (in.v[k] < val) ++less;
    if (in.v[k] <= val) ++leq;
  }
  C c{build<C>(in)};
  int const &needle{element(c, in.i)};
  auto const er{fcppt::algorithm::equal_range(c, needle)};
  verif_assert(static_cast<unsigned>(std::distance(c.begin(), er.begin())) == less && static_cast<unsigned>(std::distance(c.begin(), er.end())) == leq,
               "equal_range(c, c[i]): the run of elements equal to c[i]");
  verif_assert(less <= in.i && in.i < leq, "equal_range(c, c[i]) contains position i");
  auto const bs{fcppt::algorithm::binary_search(c, needle)};
  verif_assert(bs.has_value() == (leq - less == 1U), "binary_search(c, c[i]): a value iff c[i] occurs exactly once");
  if (bs.has_value()) verif_assert(&*bs.get_unsafe() == &needle, "binary_search(c, c[i]): the iterator to c[i] itself");
  verif_reach("alias-sorted-end");
}

// ---- associative: keys referring into the map, set algebra of a set with itself
void alias_assoc()
{
  unsigned const n{static_cast<unsigned>(verif_param("n"))};
  int k[maxn], v[maxn];
  std::map<int, int> m{};
  for (unsigned j = 0; j < n; ++j)
  {
    k[j] = static_cast<int>(verif_u32("key"));
    v[j] = static_cast<int>(verif_u32("val"));
    m.insert(std::make_pair(k[j], v[j]));
  }
  std::size_t const size0{m.size()};
  {
    // the key is a reference to the key stored in the first node
    int const &key{m.begin()->first};
    int const value{m.begin()->second};
    auto const fm{fcppt::container::find_opt_mapped(m, key)};
    verif_assert(fm.has_value() && &fm.get_unsafe().get() == &m.begin()->second, "find_opt_mapped(m, key stored in m): that element");
    unsigned calls{0};
    auto const res{fcppt::container::get_or_insert_with_result(m, key, [&calls](int const kk) { ++calls; return kk; })};
    verif_assert(!res.inserted() && calls == 0U && res.element() == value && m.size() == size0, "get_or_insert_with_result(m, key stored in m): found, nothing inserted");
  }
  {
    // the key is a reference to a MAPPED value of the map (absent or present as a key)
    int const &key{m.begin()->second};
    int const kval{key};
    bool present{false};
    for (unsigned j = 0; j < n; ++j) present = present | (k[j] == kval);
    verif_out("present", present);
    unsigned calls{0};
    int &got{fcppt::container::get_or_insert(m, key, [&calls](int const kk) { ++calls; return static_cast<int>(static_cast<unsigned>(kk) ^ 1U); })};
    verif_assert(calls == (present ? 0U : 1U), "get_or_insert(m, reference to a mapped value): create called iff the key is absent");
    verif_assert(m.size() == size0 + (present ? 0U : 1U), "get_or_insert(m, reference to a mapped value): grows iff absent");
    verif_assert(&got == &m.find(kval)->second, "get_or_insert(m, reference to a mapped value): the element for that key value");
    if (!present) verif_assert(got == static_cast<int>(static_cast<unsigned>(kval) ^ 1U), "get_or_insert(m, reference to a mapped value): create received the key value");
  }
  {
    std::set<int> s{};
    for (unsigned j = 0; j < n; ++j) s.insert(k[j]);
    verif_assert(fcppt::container::set_union(s, s) == s, "set_union(s, s) == s");
    verif_assert(fcppt::container::set_intersection(s, s) == s, "set_intersection(s, s) == s");
    verif_assert(fcppt::container::set_difference(s, s).empty(), "set_difference(s, s) is empty");
    // (through a const reference: container::find_opt on a NON-const std::set does not compile in the unchanged tree -
    // optional<reference<int const>> from the set's const iterator does not convert to the declared optional<reference<int>>)
    std::set<int> const &cs{s};
    auto const f{fcppt::container::find_opt(cs, *cs.begin())};
    verif_assert(f.has_value() && &f.get_unsafe().get() == &*s.begin(), "find_opt(s, *s.begin()): that element");
  }
  verif_reach("alias-assoc-end");
}

// ---- strings: the delimiter of join_strings is one of the joined strings
std::string fresh_string(char const *const name, unsigned const len)
{
  std::string s(len, '\0');
  for (unsigned k = 0; k < len; ++k) s[k] = static_cast<char>(verif_u8(name));
  return s;
}

void alias_join()
{
  unsigned const n{static_cast<unsigned>(verif_param("n"))}, len{static_cast<unsigned>(verif_param("len"))};
  unsigned const i{verif_u8("i")};
  verif_assume(i < n);
  std::vector<std::string> parts{};
  for (unsigned k = 0; k < n; ++k) parts.push_back(fresh_string("p", k % 2 == 0 ? len : 1));
  std::string const copy{parts[i]};
  std::string const r1{fcppt::algorithm::join_strings(parts, parts[i])};
  std::string const r2{fcppt::algorithm::join_strings(parts, copy)};
  std::string expect{};
  for (unsigned k = 0; k < n; ++k)
  {
    if (k != 0) expect += copy;
    expect += parts[k];
  }
  verif_out("size", r1.size());
  verif_assert(r1 == r2, "join_strings(parts, parts[i]) == join_strings(parts, copy of parts[i])");
  verif_assert(r1 == expect, "join_strings(parts, parts[i]): p1 + d + p2 + ... with d the value of parts[i]");
  verif_reach("alias-join-end");
}

// ---- split_string / join_strings: leading empty pieces
void split_leading()
{
  unsigned const len{static_cast<unsigned>(verif_param("len"))};
  unsigned const lead{static_cast<unsigned>(verif_param("lead"))}; // the first `lead` characters are delimiters
  std::string const s{fresh_string("ch", len)};
  char const d{static_cast<char>(verif_u8("delim"))};
  for (unsigned k = 0; k < lead; ++k) verif_assume(s[k] == d);
  unsigned delims{0};
  for (unsigned k = 0; k < len; ++k)
    if (s[k] == d) ++delims;
  std::vector<std::string> const r{fcppt::algorithm::split_string(s, d)};
  verif_assert(r.size() == delims + 1U, "split_string: one piece more than there are delimiters");
  bool lead_empty{r.size() > lead};
  for (unsigned k = 0; k < lead && k < r.size(); ++k) lead_empty = lead_empty & r[k].empty();
  verif_assert(lead_empty, "split_string: a string starting with k delimiters yields k leading empty pieces");
  if (delims == len) // only delimiters
  {
    bool all_empty{true};
    for (auto const &p : r) all_empty = all_empty & p.empty();
    verif_assert(all_empty && r.size() == len + 1U, "split_string of only delimiters: len+1 empty pieces");
  }
  verif_assert(fcppt::algorithm::join_strings(r, std::string(1, d)) == s, "join_strings(split_string(s,d),d) == s with leading empty pieces");
  // and joining leading empty strings by hand
  std::vector<std::string> parts(lead, std::string{});
  parts.push_back(s.substr(lead));
  verif_assert(fcppt::algorithm::join_strings(parts, std::string(1, d)) == s, "join_strings of k empty strings and a tail: k delimiters, then the tail");
  verif_reach("split-leading-end");
}
}

using vec = std::vector<int>;
using lst = std::list<int>;
using deq = std::deque<int>;
#define H(name, ...) VERIF_HARNESS(name) { __VA_ARGS__; }
H(h_alias_remove_vec, alias_remove<vec>()) H(h_alias_remove_deq, alias_remove<deq>()) H(h_alias_remove_lst, alias_remove<lst>())
H(h_alias_search_vec, alias_search<vec>()) H(h_alias_search_deq, alias_search<deq>()) H(h_alias_search_lst, alias_search<lst>())
H(h_alias_sorted_vec, alias_sorted<vec>()) H(h_alias_sorted_deq, alias_sorted<deq>()) H(h_alias_sorted_lst, alias_sorted<lst>())
H(h_alias_assoc, alias_assoc()) H(h_alias_join, alias_join()) H(h_split_leading, split_leading())
//@harness h_alias_remove_{C} for C in vec,deq,lst param n=2..5 tier=quick loop=80
//@harness h_alias_search_{C} for C in vec,deq,lst param n=2..4 tier=quick loop=80
//@harness h_alias_sorted_{C} for C in vec,deq,lst param n=2..4 tier=quick loop=80
//@harness h_alias_assoc param n=1..3 tier=quick loop=80
//@harness h_alias_join param n=1..3 param len=0,2 tier=quick loop=80
//@harness h_split_leading param len=1..4 param lead=1..4 if lead<=len tier=quick loop=80
//@harness h_alias_search_{C} for C in vec,deq,lst param n=5 tier=thorough loop=80
//@harness h_alias_sorted_{C} for C in vec,deq,lst param n=5 tier=thorough loop=80
