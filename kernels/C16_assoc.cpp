// C16 (part 3) - helpers over associative containers equal their obvious specification.
// Real code: fcppt::algorithm::{map_iteration, map_iteration_second, sequence_iteration (on std::map)},
// fcppt::container::{find_opt, find_opt_iterator, find_opt_mapped, get_or_insert, get_or_insert_with_result, key_set,
// map_values_copy, map_values_ref, set_union, set_intersection, set_difference}, fcppt::algorithm::map / fold over a std::map.
// std::map / std::set are executed from the libstdc++ headers; the out-of-line red-black tree primitives come from the
// model engine/rt/rbtree.cpp (//@models rbtree: same links, no rebalancing - order and lookups do not depend on balance).
// Inputs: n symbolic (key,value) pairs inserted in input order (duplicates allowed: the first insertion wins, as std::map
// specifies); predicates / creators are uninterpreted functions with a call log.
// Oracle: an association list written here (first occurrence of a key wins), visited in increasing key order.
// Bounds: n <= 3 pairs / sets of <= 2+2 elements in the quick tier (every insertion forks over the key order).
// Outside the claim: std::unordered_map/set (hashing), index_map.
//@property C16
//@models rbtree
#include "verif_api.h"
#include <fcppt/make_ref.hpp>
#include <fcppt/reference_impl.hpp>
#include <fcppt/algorithm/fold.hpp>
#include <fcppt/algorithm/map.hpp>
#include <fcppt/algorithm/map_iteration.hpp>
#include <fcppt/algorithm/map_iteration_second.hpp>
#include <fcppt/algorithm/sequence_iteration.hpp>
#include <fcppt/algorithm/update_action.hpp>
#include <fcppt/container/find_opt.hpp>
#include <fcppt/container/find_opt_iterator.hpp>
#include <fcppt/container/find_opt_mapped.hpp>
#include <fcppt/container/get_or_insert.hpp>
#include <fcppt/container/get_or_insert_result.hpp>
#include <fcppt/container/get_or_insert_with_result.hpp>
#include <fcppt/container/key_set.hpp>
#include <fcppt/container/map_values_copy.hpp>
#include <fcppt/container/map_values_ref.hpp>
#include <fcppt/container/set_difference.hpp>
#include <fcppt/container/set_intersection.hpp>
#include <fcppt/container/set_union.hpp>
#include <fcppt/optional/object_impl.hpp>
#include <fcppt/optional/reference.hpp>
#include <cstdint>
#include <map>
#include <set>
#include <utility>
#include <vector>

namespace
{
using u64 = std::uint64_t;
constexpr unsigned maxn = 5;
using map_t = std::map<int, int>;

// association list sorted by key: the reference model of the map's contents
struct assoc
{
  int k[maxn], v[maxn];
  unsigned n;
  bool has(int const key) const
  {
    bool r{false};
    for (unsigned i = 0; i < n; ++i) r = r | (k[i] == key);
    return r;
  }
};

struct input
{
  int k[maxn], v[maxn];
  unsigned n;
};

input fresh_input()
{
  input in{};
  in.n = static_cast<unsigned>(verif_param("n"));
  for (unsigned i = 0; i < in.n; ++i)
  {
    in.k[i] = static_cast<int>(verif_u32("key"));
    in.v[i] = static_cast<int>(verif_u32("val"));
  }
  return in;
}

map_t build(input const &in)
{
  map_t m{};
  for (unsigned i = 0; i < in.n; ++i) m.insert(std::make_pair(in.k[i], in.v[i]));
  return m;
}

// first occurrence of a key wins; insertion sort by key
assoc reference(input const &in)
{
  assoc a{};
  for (unsigned i = 0; i < in.n; ++i)
  {
    if (a.has(in.k[i])) continue;
    unsigned pos{a.n};
    while (pos > 0 && a.k[pos - 1] > in.k[i])
    {
      a.k[pos] = a.k[pos - 1];
      a.v[pos] = a.v[pos - 1];
      --pos;
    }
    a.k[pos] = in.k[i];
    a.v[pos] = in.v[i];
    ++a.n;
  }
  return a;
}

bool map_is(map_t const &m, assoc const &a)
{
  if (m.size() != a.n) return false;
  bool ok{true};
  unsigned i{0};
  for (auto const &e : m)
  {
    ok = ok & (e.first == a.k[i]) & (e.second == a.v[i]);
    ++i;
  }
  return ok;
}

constexpr unsigned logcap = 32;
u64 g_log[logcap];
unsigned g_logn = 0;
void log_call(u64 const x)
{
  verif_assert(g_logn < logcap, "harness call log large enough");
  g_log[g_logn++] = x;
}
u64 key32(int const x) { return static_cast<std::uint32_t>(x); }
bool p_ref(int const x) { return (verif_uf1(1, key32(x)) & 1U) != 0; }
int create_ref(int const key) { return static_cast<int>(verif_uf1(2, key32(key))); }
bool log_is_keys(assoc const &a)
{
  if (g_logn != a.n) return false;
  bool ok{true};
  for (unsigned i = 0; i < a.n; ++i) ok = ok & (g_log[i] == key32(a.k[i]));
  return ok;
}

// ---- map_iteration / sequence_iteration on a map (action decided by the key)
void iteration()
{
  input const in{fresh_input()};
  assoc const a{reference(in)};
  assoc kept{};
  for (unsigned i = 0; i < a.n; ++i)
    if (!p_ref(a.k[i])) { kept.k[kept.n] = a.k[i]; kept.v[kept.n] = a.v[i]; ++kept.n; }
  verif_out("kept", kept.n);
  {
    map_t m{build(in)};
    verif_assert(map_is(m, a), "harness: std::map holds the first value inserted for every key, in key order");
    g_logn = 0;
    fcppt::algorithm::map_iteration(m, [](map_t::value_type const &e) {
      log_call(key32(e.first));
      return p_ref(e.first) ? fcppt::algorithm::update_action::remove : fcppt::algorithm::update_action::keep;
    });
    verif_assert(map_is(m, kept), "map_iteration: exactly the elements whose action is keep remain");
    verif_assert(log_is_keys(a), "map_iteration: the action is applied once per element, in key order");
  }
  {
    map_t m{build(in)};
    g_logn = 0;
    fcppt::algorithm::sequence_iteration(m, [](map_t::value_type const &e) {
      log_call(key32(e.first));
      return p_ref(e.first) ? fcppt::algorithm::update_action::remove : fcppt::algorithm::update_action::keep;
    });
    verif_assert(map_is(m, kept), "sequence_iteration on a map: exactly the elements whose action is keep remain");
    verif_assert(log_is_keys(a), "sequence_iteration on a map: the action is applied once per element, in key order");
  }
  verif_reach("iteration-end");
}

// ---- map_iteration_second (action decided by the mapped value)
void iteration_second()
{
  input const in{fresh_input()};
  assoc const a{reference(in)};
  assoc kept{};
  for (unsigned i = 0; i < a.n; ++i)
    if (!p_ref(a.v[i])) { kept.k[kept.n] = a.k[i]; kept.v[kept.n] = a.v[i]; ++kept.n; }
  map_t m{build(in)};
  g_logn = 0;
  fcppt::algorithm::map_iteration_second(m, [](int const &v) {
    log_call(key32(v));
    return p_ref(v) ? fcppt::algorithm::update_action::remove : fcppt::algorithm::update_action::keep;
  });
  verif_assert(map_is(m, kept), "map_iteration_second: exactly the elements whose mapped value is kept remain");
  bool ok{g_logn == a.n};
  for (unsigned i = 0; i < a.n && i < g_logn; ++i) ok = ok & (g_log[i] == key32(a.v[i]));
  verif_assert(ok, "map_iteration_second: the action is applied to every mapped value once, in key order");
  verif_reach("iteration-second-end");
}

// ---- lookups and get_or_insert
void lookup()
{
  input const in{fresh_input()};
  assoc const a{reference(in)};
  int const key{static_cast<int>(verif_u32("probe"))};
  bool const present{a.has(key)};
  int value{0};
  for (unsigned i = 0; i < a.n; ++i)
    if (a.k[i] == key) value = a.v[i];
  verif_out("present", present);
  map_t m{build(in)};
  map_t const &cm{m};
  {
    auto const it{fcppt::container::find_opt_iterator(m, key)};
    verif_assert(it.has_value() == present, "find_opt_iterator: a value iff the key is present");
    if (it.has_value()) verif_assert(it.get_unsafe()->first == key && it.get_unsafe()->second == value, "find_opt_iterator: iterator to the element with that key");
    auto const e{fcppt::container::find_opt(cm, key)};
    verif_assert(e.has_value() == present, "find_opt: a value iff the key is present");
    if (e.has_value()) verif_assert(e.get_unsafe().get().first == key && e.get_unsafe().get().second == value, "find_opt: the element with that key");
    auto const r{fcppt::container::find_opt_mapped(m, key)};
    verif_assert(r.has_value() == present, "find_opt_mapped: a value iff the key is present");
    if (r.has_value())
    {
      verif_assert(r.get_unsafe().get() == value, "find_opt_mapped: the mapped value of the key");
      verif_assert(&r.get_unsafe().get() == &m.find(key)->second, "find_opt_mapped: a reference into the container");
    }
    auto const rc{fcppt::container::find_opt_mapped(cm, key)};
    verif_assert(rc.has_value() == present, "find_opt_mapped (const): a value iff the key is present");
  }
  {
    unsigned calls{0};
    int arg{0};
    auto const res{fcppt::container::get_or_insert_with_result(m, key, [&calls, &arg](int const k) {
      ++calls;
      arg = k;
      return create_ref(k);
    })};
    verif_assert(res.inserted() == !present, "get_or_insert_with_result: inserted() is true exactly when the key was absent");
    verif_assert(calls == (present ? 0U : 1U), "get_or_insert_with_result: create is called exactly when the key was absent");
    if (!present) verif_assert(arg == key, "get_or_insert_with_result: create receives the key");
    verif_assert(res.element() == (present ? value : create_ref(key)), "get_or_insert_with_result: the existing or the newly created value");
    verif_assert(m.size() == a.n + (present ? 0U : 1U), "get_or_insert_with_result: the map grows by one exactly when the key was absent");
    verif_assert(&res.element() == &m.find(key)->second, "get_or_insert_with_result: element() refers into the container");
    // every old element is still there, unchanged
    bool ok{true};
    for (unsigned i = 0; i < a.n; ++i)
    {
      auto const it(m.find(a.k[i]));
      ok = ok & (it != m.end() && it->second == a.v[i]);
    }
    verif_assert(ok, "get_or_insert_with_result: all previous elements are unchanged");
    // second call finds it
    unsigned calls2{0};
    int &again{fcppt::container::get_or_insert(m, key, [&calls2](int const k) { ++calls2; return create_ref(k) + 1; })};
    verif_assert(calls2 == 0U && &again == &res.element(), "get_or_insert: an existing key is returned without calling create");
  }
  verif_reach("lookup-end");
}

// ---- key_set / map_values / map / fold over a map
void projections()
{
  input const in{fresh_input()};
  assoc const a{reference(in)};
  map_t m{build(in)};
  map_t const &cm{m};
  {
    std::set<int> const ks{fcppt::container::key_set<std::set<int>>(cm)};
    bool ok{ks.size() == a.n};
    unsigned i{0};
    for (int const k : ks)
    {
      if (i < a.n) ok = ok & (k == a.k[i]);
      ++i;
    }
    verif_assert(ok, "key_set: exactly the keys of the map");
  }
  {
    std::vector<int> const vals{fcppt::container::map_values_copy<std::vector<int>>(cm)};
    bool ok{vals.size() == a.n};
    for (unsigned i = 0; i < a.n && i < vals.size(); ++i) ok = ok & (vals[i] == a.v[i]);
    verif_assert(ok, "map_values_copy: the mapped values in key order");
    auto const refs{fcppt::container::map_values_ref<std::vector<fcppt::reference<int>>>(m)};
    bool okr{refs.size() == a.n};
    for (unsigned i = 0; i < a.n && i < refs.size(); ++i) okr = okr & (&refs[i].get() == &m.find(a.k[i])->second);
    verif_assert(okr, "map_values_ref: references to the mapped values in key order");
  }
  {
    std::vector<u64> const r{fcppt::algorithm::map<std::vector<u64>>(cm, [](map_t::value_type const &e) { return verif_uf2(3, key32(e.first), key32(e.second)); })};
    bool ok{r.size() == a.n};
    for (unsigned i = 0; i < a.n && i < r.size(); ++i) ok = ok & (r[i] == verif_uf2(3, key32(a.k[i]), key32(a.v[i])));
    verif_assert(ok, "map over a std::map: f of every element in key order");
    u64 expect{7};
    for (unsigned i = 0; i < a.n; ++i) expect = verif_uf3(4, key32(a.k[i]), key32(a.v[i]), expect);
    u64 const f{fcppt::algorithm::fold(cm, u64{7}, [](map_t::value_type const &e, u64 const s) { return verif_uf3(4, key32(e.first), key32(e.second), s); })};
    verif_assert(f == expect, "fold over a std::map: from the smallest key upwards");
  }
  verif_reach("projections-end");
}

// ---- set algebra
void sets()
{
  unsigned const na{static_cast<unsigned>(verif_param("na"))}, nb{static_cast<unsigned>(verif_param("nb"))};
  int ea[maxn], eb[maxn];
  std::set<int> A{}, B{};
  for (unsigned i = 0; i < na; ++i) { ea[i] = static_cast<int>(verif_u32("a")); A.insert(ea[i]); }
  for (unsigned i = 0; i < nb; ++i) { eb[i] = static_cast<int>(verif_u32("b")); B.insert(eb[i]); }
  auto const inA{[&](int const x) { bool r{false}; for (unsigned i = 0; i < na; ++i) r = r | (ea[i] == x); return r; }};
  auto const inB{[&](int const x) { bool r{false}; for (unsigned i = 0; i < nb; ++i) r = r | (eb[i] == x); return r; }};
  std::set<int> const U{fcppt::container::set_union(A, B)}, I{fcppt::container::set_intersection(A, B)}, D{fcppt::container::set_difference(A, B)};
  int const x{static_cast<int>(verif_u32("probe"))};
  verif_assert((U.count(x) == 1U) == (inA(x) || inB(x)), "set_union: x is a member iff it is in a or in b");
  verif_assert((I.count(x) == 1U) == (inA(x) && inB(x)), "set_intersection: x is a member iff it is in a and in b");
  verif_assert((D.count(x) == 1U) == (inA(x) && !inB(x)), "set_difference: x is a member iff it is in a and not in b");
  // sizes: |a u b| + |a n b| = |a| + |b|, |a \ b| + |a n b| = |a|
  verif_assert(U.size() + I.size() == A.size() + B.size(), "set_union / set_intersection: sizes add up");
  verif_assert(D.size() + I.size() == A.size(), "set_difference / set_intersection: sizes add up");
  verif_assert(A.size() <= na && B.size() <= nb, "harness: std::set drops duplicates");
  verif_reach("sets-end");
}
}

// the same helpers on std::multiset ("an associative container"): the multiplicity of x in the union is the maximum of
// its multiplicities, in the intersection the minimum, in the difference max(0, ma - mb) (std::set_union & co.)
namespace
{
void multisets()
{
  unsigned const na{static_cast<unsigned>(verif_param("na"))}, nb{static_cast<unsigned>(verif_param("nb"))};
  int ea[maxn], eb[maxn];
  std::multiset<int> A{}, B{};
  for (unsigned i = 0; i < na; ++i) { ea[i] = static_cast<int>(verif_u32("a")); A.insert(ea[i]); }
  for (unsigned i = 0; i < nb; ++i) { eb[i] = static_cast<int>(verif_u32("b")); B.insert(eb[i]); }
  int const x{static_cast<int>(verif_u32("probe"))};
  unsigned ma{0}, mb{0};
  for (unsigned i = 0; i < na; ++i) ma += (ea[i] == x) ? 1U : 0U;
  for (unsigned i = 0; i < nb; ++i) mb += (eb[i] == x) ? 1U : 0U;
  std::multiset<int> const U{fcppt::container::set_union(A, B)}, I{fcppt::container::set_intersection(A, B)}, D{fcppt::container::set_difference(A, B)};
  verif_assert(U.count(x) == (ma > mb ? ma : mb), "set_union (multiset): multiplicity = max");
  verif_assert(I.count(x) == (ma < mb ? ma : mb), "set_intersection (multiset): multiplicity = min");
  verif_assert(D.count(x) == (ma > mb ? ma - mb : 0U), "set_difference (multiset): multiplicity = max(0, ma - mb)");
  verif_assert(U.size() + I.size() == na + nb, "set_union / set_intersection (multiset): sizes add up");
  verif_assert(A.size() == na && B.size() == nb, "set helpers leave their arguments untouched");
  verif_reach("multisets-end");
}
}
VERIF_HARNESS(h_assoc_multisets) { multisets(); }
//@harness h_assoc_multisets param na=0..2 param nb=0..2 tier=quick loop=40

VERIF_HARNESS(h_assoc_iteration) { iteration(); }
VERIF_HARNESS(h_assoc_iteration_second) { iteration_second(); }
VERIF_HARNESS(h_assoc_lookup) { lookup(); }
VERIF_HARNESS(h_assoc_projections) { projections(); }
VERIF_HARNESS(h_assoc_sets) { sets(); }
//@harness h_assoc_iteration param n=0..3 tier=quick loop=80
//@harness h_assoc_iteration_second param n=0..3 tier=quick loop=80
//@harness h_assoc_lookup param n=0..3 tier=quick loop=80
//@harness h_assoc_projections param n=0..3 tier=quick loop=80
//@harness h_assoc_sets param na=0..2 param nb=0..2 tier=quick loop=80
//@harness h_assoc_iteration param n=4 tier=thorough loop=80 wall=900
//@harness h_assoc_iteration_second param n=4 tier=thorough loop=80 wall=900
//@harness h_assoc_lookup param n=4 tier=thorough loop=80 wall=900
//@harness h_assoc_projections param n=4 tier=thorough loop=80 wall=900
//@harness h_assoc_sets param na=3 param nb=0..2 tier=thorough loop=80 wall=900
//@harness h_assoc_sets param na=0..2 param nb=3 tier=thorough loop=80 wall=900
// (na = nb = 3: more than 11000 key orders, not decided within 900 s - not claimed)
