// C16 (part 4) - fixed-size sources: fcppt::array / fcppt::tuple helpers and the algorithms over arrays, tuples, integer
// and enum ranges.
// Real code: fcppt::array::{map, join, append, push_back, init, from_range, make}, fcppt::tuple::{map, concat, push_back,
// make, get}, fcppt::algorithm::{map, fold, fold_break, loop, loop_break (tuple specialisation loop_break_tuple.hpp),
// all_of, contains, find_opt, index_of} over fcppt::array::object, std::array, fcppt::tuple::object, fcppt::int_range
// (make_int_range / make_int_range_count) and fcppt::enum_::range (make_range).
// Inputs: every element a fully symbolic 32-bit int; sizes are template parameters (instantiated for 0/1/2/3/4 elements as
// the harness names say); range bounds symbolic with a parameterised length.  Mapping functions / predicates are
// uninterpreted functions with a call log (array::init / tuple::init use braced initialisation, so the calls are ordered).
// Oracle: the obvious element-wise specification written here.
// Outside the claim: heterogeneous element types with non-trivial moves (C05), mpl::list ranges (compile-time only).
//@property C16
#include "verif_api.h"
#include <fcppt/loop.hpp>
#include <fcppt/make_int_range.hpp>
#include <fcppt/make_int_range_count.hpp>
#include <fcppt/algorithm/all_of.hpp>
#include <fcppt/algorithm/contains.hpp>
#include <fcppt/algorithm/find_opt.hpp>
#include <fcppt/algorithm/fold.hpp>
#include <fcppt/algorithm/fold_break.hpp>
#include <fcppt/algorithm/index_of.hpp>
#include <fcppt/algorithm/loop.hpp>
#include <fcppt/algorithm/loop_break.hpp>
#include <fcppt/algorithm/loop_break_tuple.hpp>
#include <fcppt/algorithm/map.hpp>
#include <fcppt/array/append.hpp>
#include <fcppt/array/from_range.hpp>
#include <fcppt/array/get.hpp>
#include <fcppt/array/init.hpp>
#include <fcppt/array/join.hpp>
#include <fcppt/array/make.hpp>
#include <fcppt/array/map.hpp>
#include <fcppt/array/object_impl.hpp>
#include <fcppt/array/push_back.hpp>
#include <fcppt/enum/make_range.hpp>
#include <fcppt/optional/object_impl.hpp>
#include <fcppt/tuple/concat.hpp>
#include <fcppt/tuple/get.hpp>
#include <fcppt/tuple/make.hpp>
#include <fcppt/tuple/map.hpp>
#include <fcppt/tuple/object_impl.hpp>
#include <fcppt/tuple/push_back.hpp>
#include <array>
#include <cstddef>
#include <cstdint>
#include <utility>
#include <vector>

namespace
{
using u64 = std::uint64_t;
constexpr unsigned logcap = 32;
u64 g_log[logcap];
unsigned g_logn = 0;
void log_call(u64 const x)
{
  verif_assert(g_logn < logcap, "harness call log large enough");
  g_log[g_logn++] = x;
}
u64 key32(int const x) { return static_cast<std::uint32_t>(x); }
bool p_ref(int const x) { return (verif_uf1(1, key32(x)) & 1U) != 0; }
u64 f_ref(int const x) { return verif_uf1(2, key32(x)); }
u64 step_ref(int const x, u64 const s) { return verif_uf2(4, key32(x), s); }
bool log_is(int const *const v, unsigned const cnt)
{
  if (g_logn != cnt) return false;
  bool ok{true};
  for (unsigned i = 0; i < cnt; ++i) ok = ok & (g_log[i] == key32(v[i]));
  return ok;
}

template <std::size_t N>
fcppt::array::object<int, N> fresh_array(int *const plain)
{
  return fcppt::array::init<fcppt::array::object<int, N>>([plain]<std::size_t I>(std::integral_constant<std::size_t, I>) {
    plain[I] = static_cast<int>(verif_u32("x"));
    return plain[I];
  });
}

template <typename A, typename T>
bool arr_eq(A const &a, T const *const exp, std::size_t const n)
{
  if (a.size() != n) return false;
  bool ok{true};
  std::size_t i{0};
  for (auto const &e : a)
  {
    ok = ok & (e == exp[i]);
    ++i;
  }
  return ok;
}

// ---- fcppt::array helpers
template <std::size_t N, std::size_t M>
void arrays()
{
  int pa[N + 1], pb[M + 1];
  fcppt::array::object<int, N> const a{fresh_array<N>(pa)};
  fcppt::array::object<int, M> const b{fresh_array<M>(pb)};
  verif_assert(arr_eq(a, pa, N), "array::init: element i is f(i)");
  {
    g_logn = 0;
    fcppt::array::object<u64, N> const r{fcppt::array::map(a, [](int const x) { log_call(key32(x)); return f_ref(x); })};
    u64 fx[N + 1];
    for (std::size_t i = 0; i < N; ++i) fx[i] = f_ref(pa[i]);
    verif_assert(arr_eq(r, fx, N), "array::map: f of every element at the same index");
    verif_assert(log_is(pa, N), "array::map: f is called once per element, in index order");
  }
  {
    int ab[N + M + 1], aba[2 * N + M + 1];
    for (std::size_t i = 0; i < N; ++i) { ab[i] = pa[i]; aba[i] = pa[i]; aba[N + M + i] = pa[i]; }
    for (std::size_t i = 0; i < M; ++i) { ab[N + i] = pb[i]; aba[N + i] = pb[i]; }
    // (the first argument is passed as an rvalue copy: append / push_back with an lvalue first argument do not compile in the
    // unchanged tree - array/append.hpp uses array::size<Array1> with Array1 a reference type - reported as a finding)
    using arr_n = fcppt::array::object<int, N>;
    fcppt::array::object<int, N + M> const ap{fcppt::array::append(arr_n{a}, b)};
    verif_assert(arr_eq(ap, ab, N + M), "array::append(a,b): a followed by b");
    fcppt::array::object<int, N + M> const j2{fcppt::array::join(arr_n{a}, b)};
    verif_assert(arr_eq(j2, ab, N + M), "array::join(a,b): a followed by b");
    fcppt::array::object<int, 2 * N + M> const j3{fcppt::array::join(arr_n{a}, b, a)};
    verif_assert(arr_eq(j3, aba, 2 * N + M), "array::join(a,b,a): the arrays in argument order");
    int const extra{static_cast<int>(verif_u32("extra"))};
    ab[N] = extra;
    fcppt::array::object<int, N + 1> const pb1{fcppt::array::push_back(arr_n{a}, extra)};
    verif_assert(arr_eq(pb1, ab, N + 1), "array::push_back(a,x): a followed by x");
  }
  {
    // from_range<N> of a vector with M elements
    std::vector<int> vec{};
    for (std::size_t i = 0; i < M; ++i) vec.push_back(pb[i]);
    auto const fr{fcppt::array::from_range<N>(vec)};
    verif_assert(fr.has_value() == (N == M), "array::from_range<N>: a value exactly when the range has N elements");
    if (fr.has_value()) verif_assert(arr_eq(fr.get_unsafe(), pb, N), "array::from_range<N>: the elements of the range");
  }
  {
    // the sequence algorithms accept arrays as sources
    std::vector<u64> const mv{fcppt::algorithm::map<std::vector<u64>>(a, [](int const x) { return f_ref(x); })};
    u64 fx[N + 1];
    for (std::size_t i = 0; i < N; ++i) fx[i] = f_ref(pa[i]);
    verif_assert(arr_eq(mv, fx, N), "algorithm::map over an fcppt::array");
    std::array<int, N> sa{};
    for (std::size_t i = 0; i < N; ++i) sa[i] = pa[i];
    std::vector<u64> const ms{fcppt::algorithm::map<std::vector<u64>>(sa, [](int const x) { return f_ref(x); })};
    verif_assert(arr_eq(ms, fx, N), "algorithm::map over a std::array");
    int const val{static_cast<int>(verif_u32("val"))};
    std::size_t first{N};
    for (std::size_t i = N; i > 0; --i)
      if (pa[i - 1] == val) first = i - 1;
    verif_assert(fcppt::algorithm::contains(a, val) == (first != N), "algorithm::contains over an fcppt::array");
    auto const ix{fcppt::algorithm::index_of(a, val)};
    verif_assert(ix.has_value() == (first != N), "algorithm::index_of over an fcppt::array: a value iff present");
    if (ix.has_value()) verif_assert(ix.get_unsafe() == first, "algorithm::index_of over an fcppt::array: first occurrence");
  }
  verif_reach("arrays-end");
}

// ---- tuples of N ints
template <std::size_t... I>
auto make_tuple_from(int const *const p, std::index_sequence<I...>) { return fcppt::tuple::make(p[I]...); }

template <typename T, std::size_t... I>
bool tuple_eq(T const &t, u64 const *const exp, std::index_sequence<I...>)
{
  bool ok{true};
  ((ok = ok & (static_cast<u64>(fcppt::tuple::get<I>(t)) == exp[I])), ...);
  return ok;
}

template <std::size_t N, std::size_t M>
void tuples()
{
  int pa[N + 1], pb[M + 1];
  for (std::size_t i = 0; i < N; ++i) pa[i] = static_cast<int>(verif_u32("x"));
  for (std::size_t i = 0; i < M; ++i) pb[i] = static_cast<int>(verif_u32("y"));
  auto const a{make_tuple_from(pa, std::make_index_sequence<N>{})};
  auto const b{make_tuple_from(pb, std::make_index_sequence<M>{})};
  {
    g_logn = 0;
    auto const r{fcppt::tuple::map(a, [](int const x) { log_call(key32(x)); return f_ref(x); })};
    u64 fx[N + 1];
    for (std::size_t i = 0; i < N; ++i) fx[i] = f_ref(pa[i]);
    static_assert(fcppt::tuple::size<std::remove_cvref_t<decltype(r)>>::value == N);
    verif_assert(tuple_eq(r, fx, std::make_index_sequence<N>{}), "tuple::map: f of every element at the same index");
    verif_assert(log_is(pa, N), "tuple::map: f is called once per element, in index order");
  }
  {
    u64 ab[N + M + 2];
    for (std::size_t i = 0; i < N; ++i) ab[i] = key32(pa[i]);
    for (std::size_t i = 0; i < M; ++i) ab[N + i] = key32(pb[i]);
    auto const c{fcppt::tuple::concat(make_tuple_from(pa, std::make_index_sequence<N>{}), make_tuple_from(pb, std::make_index_sequence<M>{}))};
    static_assert(fcppt::tuple::size<std::remove_cvref_t<decltype(c)>>::value == N + M);
    auto const cu{fcppt::tuple::map(c, [](int const x) { return key32(x); })};
    verif_assert(tuple_eq(cu, ab, std::make_index_sequence<N + M>{}), "tuple::concat(a,b): the elements of a followed by those of b");
    int const extra{static_cast<int>(verif_u32("extra"))};
    ab[N] = key32(extra);
    auto const p{fcppt::tuple::push_back(a, extra)};
    static_assert(fcppt::tuple::size<std::remove_cvref_t<decltype(p)>>::value == N + 1);
    auto const pu{fcppt::tuple::map(p, [](int const x) { return key32(x); })};
    verif_assert(tuple_eq(pu, ab, std::make_index_sequence<N + 1>{}), "tuple::push_back(a,x): the elements of a followed by x");
  }
  {
    // loop / loop_break / fold / fold_break / all_of over a tuple
    std::size_t fp{N};
    for (std::size_t i = N; i > 0; --i)
      if (p_ref(pa[i - 1])) fp = i - 1;
    unsigned const upto{static_cast<unsigned>(fp == N ? N : fp + 1)};
    g_logn = 0;
    fcppt::algorithm::loop(a, [](int const x) { log_call(key32(x)); });
    verif_assert(log_is(pa, N), "loop over a tuple: once per element, in order");
    g_logn = 0;
    fcppt::algorithm::loop_break(a, [](int const x) { log_call(key32(x)); return p_ref(x) ? fcppt::loop::break_ : fcppt::loop::continue_; });
    verif_assert(log_is(pa, upto), "loop_break over a tuple: in order, up to and including the element that breaks");
    u64 const s0{verif_u64("s0")};
    u64 full{s0}, part{s0};
    for (std::size_t i = 0; i < N; ++i)
    {
      full = step_ref(pa[i], full);
      if (i < upto) part = step_ref(pa[i], part);
    }
    verif_assert(fcppt::algorithm::fold(a, s0, [](int const x, u64 const s) { return step_ref(x, s); }) == full, "fold over a tuple: from the left");
    verif_assert(
        fcppt::algorithm::fold_break(a, s0, [](int const x, u64 const s) { return std::make_pair(p_ref(x) ? fcppt::loop::break_ : fcppt::loop::continue_, step_ref(x, s)); }) == part,
        "fold_break over a tuple: up to and including the element that breaks");
    verif_assert(fcppt::algorithm::all_of(a, [](int const x) { return !p_ref(x); }) == (fp == N), "all_of over a tuple");
  }
  verif_reach("tuples-end");
}

// ---- integer and enum ranges as sources
enum class small_enum { e0, e1, e2, e3, fcppt_maximum = e3 };

void ranges()
{
  unsigned const n{static_cast<unsigned>(verif_param("n"))};
  int const lo{static_cast<int>(verif_u32("lo"))};
  verif_assume(lo <= 2147483647 - static_cast<int>(n)); // lo + n does not overflow
  int expect_v[8];
  for (unsigned i = 0; i < n; ++i) expect_v[i] = lo + static_cast<int>(i);
  {
    g_logn = 0;
    std::vector<u64> const r{fcppt::algorithm::map<std::vector<u64>>(fcppt::make_int_range(lo, lo + static_cast<int>(n)), [](int const x) { log_call(key32(x)); return f_ref(x); })};
    u64 fx[8];
    for (unsigned i = 0; i < n; ++i) fx[i] = f_ref(expect_v[i]);
    verif_assert(arr_eq(r, fx, n), "map over make_int_range(lo, lo+n): f(lo), ..., f(lo+n-1)");
    verif_assert(log_is(expect_v, n), "map over an int range: in increasing order");
    u64 full{3};
    for (unsigned i = 0; i < n; ++i) full = step_ref(expect_v[i], full);
    verif_assert(fcppt::algorithm::fold(fcppt::make_int_range(lo, lo + static_cast<int>(n)), u64{3}, [](int const x, u64 const s) { return step_ref(x, s); }) == full, "fold over an int range");
  }
  {
    g_logn = 0;
    fcppt::algorithm::loop(fcppt::make_int_range_count(n), [](unsigned const x) { log_call(x); });
    bool ok{g_logn == n};
    for (unsigned i = 0; i < n && i < g_logn; ++i) ok = ok & (g_log[i] == i);
    verif_assert(ok, "loop over make_int_range_count(n): 0, ..., n-1");
    // an empty or reversed range has no elements
    int const hi{static_cast<int>(verif_u32("hi"))};
    unsigned cnt{0};
    verif_assume(hi <= lo);
    fcppt::algorithm::loop(fcppt::make_int_range(lo, hi == lo ? hi : lo), [&cnt](int) { ++cnt; });
    verif_assert(cnt == 0U, "loop over an empty int range: no iteration");
  }
  {
    g_logn = 0;
    fcppt::algorithm::loop_break(fcppt::enum_::make_range<small_enum>(), [](small_enum const e) {
      log_call(static_cast<u64>(e));
      return p_ref(static_cast<int>(e)) ? fcppt::loop::break_ : fcppt::loop::continue_;
    });
    unsigned fp{4};
    for (unsigned i = 4; i > 0; --i)
      if (p_ref(static_cast<int>(i - 1))) fp = i - 1;
    unsigned const upto{fp == 4 ? 4U : fp + 1U};
    bool ok{g_logn == upto};
    for (unsigned i = 0; i < upto && i < g_logn; ++i) ok = ok & (g_log[i] == i);
    verif_assert(ok, "loop_break over enum_::make_range: every enumerator in order, up to and including the one that breaks");
    std::vector<u64> const r{fcppt::algorithm::map<std::vector<u64>>(fcppt::enum_::make_range<small_enum>(), [](small_enum const e) { return f_ref(static_cast<int>(e)); })};
    u64 fx[4];
    for (unsigned i = 0; i < 4; ++i) fx[i] = f_ref(static_cast<int>(i));
    verif_assert(arr_eq(r, fx, 4), "map over enum_::make_range: f of every enumerator, in order");
  }
  verif_reach("ranges-end");
}
}

#define H(name, ...) VERIF_HARNESS(name) { __VA_ARGS__; }
#define AR(N, M) H(h_arrays_##N##_##M, arrays<N, M>()) H(h_tuples_##N##_##M, tuples<N, M>())
AR(1, 1) AR(1, 2) AR(2, 1) AR(2, 2) AR(3, 1) AR(3, 3) AR(2, 3) AR(4, 2)
//@harness h_arrays_{S} for S in 1_1,1_2,2_1,2_2,3_1,3_3 tier=quick loop=80
//@harness h_tuples_{S} for S in 1_1,1_2,2_1,2_2,3_1,3_3 tier=quick loop=80
//@harness h_arrays_{S} for S in 2_3,4_2 tier=thorough loop=80
//@harness h_tuples_{S} for S in 2_3,4_2 tier=thorough loop=80
H(h_ranges, ranges())
//@harness h_ranges param n=0..3 tier=quick loop=80
//@harness h_ranges param n=4..6 tier=thorough loop=80
