// C16 (part 6) - get_or_insert / get_or_insert_with_result with IMPURE creation functions.
// Documented contract (container/get_or_insert_with_result.hpp): the key is looked up; on a miss `_create` is called - once,
// with the key - and its result is inserted.  The creation function therefore runs BEFORE the element exists in the container.
// The creation functions here observe or disturb the very container they are called for:
//   * "hand out consecutive ids": create = [&m](K) { return m.size(); } must number from the size BEFORE the insertion;
//   * create checks m.count(key) == 0 and iterates m while it runs (the key must not be visible, the contents are the old ones);
//   * create THROWS (kernel-defined exception, caught in the harness): afterwards the key is NOT in the map, the map is
//     unchanged, and a later get_or_insert for that key calls create again and inserts its result.
// Real code: fcppt::container::{get_or_insert, get_or_insert_with_result, get_or_insert_result, find_opt_mapped}, std::map
// from the libstdc++ headers over the red-black tree model (//@models rbtree).
// Inputs: n symbolic keys/values (n a shape parameter), a symbolic probe key; hit and miss both explored.
// (array::init / array::map / tuple::map with a stateful function - calls in index order - are asserted in C16_fixed.cpp.)
//@property C16
//@models rbtree
#include "verif_api.h"
#include <fcppt/container/get_or_insert.hpp>
#include <fcppt/container/get_or_insert_result.hpp>
#include <fcppt/container/get_or_insert_with_result.hpp>
#include <cstdint>
#include <map>
#include <utility>

namespace
{
constexpr unsigned maxn = 5;
using map_t = std::map<int, int>;

struct input
{
  int k[maxn], v[maxn];
  unsigned n;
  int probe;
  bool present; // probe is one of the keys
  int value;    // the value std::map holds for it (first insertion wins)
  unsigned distinct;
};

input fresh_input()
{
  input in{};
  in.n = static_cast<unsigned>(verif_param("n"));
  for (unsigned i = 0; i < in.n; ++i)
  {
    in.k[i] = static_cast<int>(verif_u32("key"));
    in.v[i] = static_cast<int>(verif_u32("val"));
  }
  in.probe = static_cast<int>(verif_u32("probe"));
  for (unsigned i = in.n; i > 0; --i)
    if (in.k[i - 1] == in.probe) { in.present = true; in.value = in.v[i - 1]; }
  for (unsigned i = 0; i < in.n; ++i)
  {
    bool seen{false};
    for (unsigned j = 0; j < i; ++j) seen = seen | (in.k[j] == in.k[i]);
    if (!seen) ++in.distinct;
  }
  return in;
}

map_t build(input const &in)
{
  map_t m{};
  for (unsigned i = 0; i < in.n; ++i) m.insert(std::make_pair(in.k[i], in.v[i]));
  return m;
}

// every input pair whose key is the first of its kind is in the map with its value
bool holds_inputs(map_t const &m, input const &in)
{
  bool ok{true};
  for (unsigned i = 0; i < in.n; ++i)
  {
    bool first{true};
    for (unsigned j = 0; j < i; ++j) first = first & (in.k[j] != in.k[i]);
    auto const it(m.find(in.k[i]));
    ok = ok & (it != m.end());
    if (first && it != m.end()) ok = ok & (it->second == in.v[i]);
  }
  return ok;
}

// ---- consecutive ids
void ids()
{
  input const in{fresh_input()};
  map_t m{build(in)};
  verif_assert(m.size() == in.distinct, "harness: std::map holds one element per distinct key");
  verif_out("present", in.present);
  unsigned calls{0};
  int &id{fcppt::container::get_or_insert(m, in.probe, [&m, &calls](int) { ++calls; return static_cast<int>(m.size()); })};
  verif_assert(calls == (in.present ? 0U : 1U), "get_or_insert: create runs exactly on a miss");
  if (in.present) verif_assert(id == in.value, "get_or_insert (hit): the existing value");
  else verif_assert(id == static_cast<int>(in.distinct), "get_or_insert with create = m.size(): the id is the size BEFORE the insertion");
  verif_assert(m.size() == in.distinct + (in.present ? 0U : 1U), "get_or_insert: the map grows by one exactly on a miss");
  verif_assert(holds_inputs(m, in), "get_or_insert: the previous elements are unchanged");
  // numbering fresh keys into an empty map: the i-th NEW key gets id i
  map_t reg{};
  unsigned fresh{0};
  for (unsigned i = 0; i < in.n; ++i)
  {
    bool seen{false};
    unsigned first_at{0}, rank{0};
    for (unsigned j = 0; j < i; ++j)
    {
      bool dup{false};
      for (unsigned l = 0; l < j; ++l) dup = dup | (in.k[l] == in.k[j]);
      if (in.k[j] == in.k[i] && !seen) { seen = true; first_at = rank; }
      if (!dup) ++rank;
    }
    int const got{fcppt::container::get_or_insert(reg, in.k[i], [&reg](int) { return static_cast<int>(reg.size()); })};
    verif_assert(got == static_cast<int>(seen ? first_at : fresh), "handing out consecutive ids: a new key gets the next id, a known key keeps its id");
    if (!seen) ++fresh;
  }
  verif_assert(reg.size() == in.distinct, "handing out consecutive ids: one id per distinct key");
  verif_reach("ids-end");
}

// ---- create observes the container while it runs
void observe()
{
  input const in{fresh_input()};
  map_t m{build(in)};
  map_t const before{m};
  unsigned calls{0};
  bool key_visible{true}, contents_old{false};
  std::size_t seen_size{999};
  int arg{0};
  auto const res{fcppt::container::get_or_insert_with_result(m, in.probe, [&](int const key) {
    ++calls;
    arg = key;
    key_visible = m.count(key) != 0U || m.find(key) != m.end();
    seen_size = m.size();
    bool same{m.size() == before.size()};
    auto it(before.begin());
    for (auto const &e : m) // iterate the container while create runs
    {
      if (it == before.end()) { same = false; break; }
      same = same & (e.first == it->first) & (e.second == it->second) & (e.first != key);
      ++it;
    }
    contents_old = same;
    return static_cast<int>(verif_uf1(2, static_cast<std::uint32_t>(key)));
  })};
  verif_out("present", in.present);
  verif_assert(res.inserted() == !in.present && calls == (in.present ? 0U : 1U), "get_or_insert_with_result: create runs, and inserted() is true, exactly on a miss");
  if (!in.present)
  {
    verif_assert(arg == in.probe, "create receives the key");
    verif_assert(!key_visible, "create runs BEFORE the element exists: the key is not in the container while create runs");
    verif_assert(seen_size == in.distinct, "create sees the size before the insertion");
    verif_assert(contents_old, "create sees exactly the old contents when it iterates the container");
    verif_assert(res.element() == static_cast<int>(verif_uf1(2, static_cast<std::uint32_t>(in.probe))), "the created value is what is inserted");
    verif_assert(m.size() == in.distinct + 1U && &res.element() == &m.find(in.probe)->second, "the new element is in the container afterwards");
  }
  else
    verif_assert(res.element() == in.value && m == before, "hit: the existing element, container unchanged");
  verif_assert(holds_inputs(m, in), "the previous elements are unchanged");
  verif_reach("observe-end");
}

// ---- create throws
struct create_failed
{
  int key;
};

void throwing()
{
  input const in{fresh_input()};
  map_t m{build(in)};
  map_t const before{m};
  unsigned calls{0};
  bool caught{false};
  int caught_key{0};
  try
  {
    int const &r{fcppt::container::get_or_insert(m, in.probe, [&calls](int const key) -> int {
      ++calls;
      throw create_failed{key};
    })};
    verif_assert(in.present && r == in.value, "get_or_insert returns normally only on a hit (create always throws here)");
  }
  catch (create_failed const &e)
  {
    caught = true;
    caught_key = e.key;
  }
  verif_out("present", in.present);
  verif_assert(caught == !in.present && calls == (in.present ? 0U : 1U), "a throwing create is called, and its exception propagates, exactly on a miss");
  if (caught) verif_assert(caught_key == in.probe, "create received the key");
  verif_assert(m == before, "after create threw, the container is unchanged");
  verif_assert((m.count(in.probe) != 0U) == in.present, "after create threw, the key is NOT in the container");
  // a later call runs create again and inserts
  unsigned calls2{0};
  auto const res{fcppt::container::get_or_insert_with_result(m, in.probe, [&calls2](int const key) { ++calls2; return key; })};
  verif_assert(calls2 == (in.present ? 0U : 1U) && res.inserted() == !in.present, "a later get_or_insert for that key calls create again");
  verif_assert(res.element() == (in.present ? in.value : in.probe) && m.size() == in.distinct + (in.present ? 0U : 1U), "... and inserts its result");
  verif_reach("throwing-end");
}
}

VERIF_HARNESS(h_goi_ids) { ids(); }
VERIF_HARNESS(h_goi_observe) { observe(); }
VERIF_HARNESS(h_goi_throwing) { throwing(); }
//@harness h_goi_ids param n=0..3 tier=quick loop=80
//@harness h_goi_observe param n=0..3 tier=quick loop=80
//@harness h_goi_throwing param n=0..3 tier=quick loop=80
