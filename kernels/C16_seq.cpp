// C16 (part 1) - fcppt.algorithm functions over sequence containers equal their obvious loop-based specification.
// Real code: fcppt::algorithm::{map, map_optional, map_concat, fold, fold_break, loop, loop_break, all_of, contains,
// contains_if, find_opt, find_if_opt, find_by_opt, index_of, binary_search, equal_range, remove, remove_if, unique, unique_if,
// reverse, repeat, generate_n, sequence_iteration}, fcppt::container::{join, at_optional} - instantiated for
// std::vector / std::list / std::deque / std::forward_list sources (libstdc++ containers executed from their headers).
// Inputs: the length is a shape parameter n, every element is a fully symbolic 32-bit int.  Predicates, mapping functions,
// fold steps and keys are UNINTERPRETED functions (verif_uf*), so a verdict holds for all predicates / functions at once;
// every call made through them is logged, which gives the order of visits and the early stop.
// Oracles: the obvious loop over the plain input array, written here from the documentation.
// Only documented guarantees are asserted: e.g. for remove_if the number of predicate applications (std::remove_if: exactly
// n), not their order; unique_if is given an equivalence relation (key equality), as std::unique requires.
// Outside the claim: std::unordered_* sources (hashing), element types with non-trivial move semantics (covered by C05).
//@property C16
// "return exactly what the obvious loop returns" includes leaving a non-const lvalue argument unchanged: the algorithm
// harnesses of C05 (instrumented elements, lvalue/rvalue variants) are decided again for C16
//@import C05_seq.cpp only=^h_(algorithm|container)_
#include "verif_api.h"
#include <fcppt/loop.hpp>
#include <fcppt/make_int_range_count.hpp>
#include <fcppt/algorithm/all_of.hpp>
#include <fcppt/algorithm/binary_search.hpp>
#include <fcppt/algorithm/contains.hpp>
#include <fcppt/algorithm/contains_if.hpp>
#include <fcppt/algorithm/equal_range.hpp>
#include <fcppt/algorithm/find_by_opt.hpp>
#include <fcppt/algorithm/find_if_opt.hpp>
#include <fcppt/algorithm/find_opt.hpp>
#include <fcppt/algorithm/fold.hpp>
#include <fcppt/algorithm/fold_break.hpp>
#include <fcppt/algorithm/generate_n.hpp>
#include <fcppt/algorithm/index_of.hpp>
#include <fcppt/algorithm/loop.hpp>
#include <fcppt/algorithm/loop_break.hpp>
#include <fcppt/algorithm/map.hpp>
#include <fcppt/algorithm/map_concat.hpp>
#include <fcppt/algorithm/map_optional.hpp>
#include <fcppt/algorithm/remove.hpp>
#include <fcppt/algorithm/remove_if.hpp>
#include <fcppt/algorithm/repeat.hpp>
#include <fcppt/algorithm/reverse.hpp>
#include <fcppt/algorithm/sequence_iteration.hpp>
#include <fcppt/algorithm/unique.hpp>
#include <fcppt/algorithm/unique_if.hpp>
#include <fcppt/algorithm/update_action.hpp>
#include <fcppt/container/at_optional.hpp>
#include <fcppt/container/join.hpp>
#include <fcppt/optional/object_impl.hpp>
#include <fcppt/optional/reference.hpp>
#include <cstdint>
#include <deque>
#include <forward_list>
#include <iterator>
#include <list>
#include <utility>
#include <vector>

namespace
{
using u64 = std::uint64_t;
constexpr unsigned maxn = 6;

struct input
{
  int v[maxn];
  unsigned n;
};

input fresh_input()
{
  input in{};
  in.n = static_cast<unsigned>(verif_param("n"));
  for (unsigned i = 0; i < in.n; ++i) in.v[i] = static_cast<int>(verif_u32("x"));
  return in;
}

template <typename C>
C build(input const &in)
{
  C c{};
  if constexpr (std::is_same_v<C, std::forward_list<int>>)
  {
    for (unsigned i = in.n; i > 0; --i) c.push_front(in.v[i - 1]);
  }
  else
  {
    for (unsigned i = 0; i < in.n; ++i) c.insert(c.end(), in.v[i]);
  }
  return c;
}

// branch-free comparison of a container with an expected array
template <typename C, typename T>
bool seq_eq(C const &c, T const *const exp, unsigned const n)
{
  if (static_cast<unsigned>(std::distance(c.begin(), c.end())) != n) return false;
  bool ok{true};
  unsigned i{0};
  for (auto const &e : c)
  {
    ok = ok & (e == exp[i]);
    ++i;
  }
  return ok;
}

// ---- uninterpreted functions + call log
constexpr unsigned logcap = 64;
u64 g_log[logcap];
unsigned g_logn = 0;
void log_call(u64 const x)
{
  verif_assert(g_logn < logcap, "harness call log large enough");
  g_log[g_logn++] = x;
}
void log_reset() { g_logn = 0; }
// the log holds exactly the first cnt elements of the input, in order
bool log_is_prefix(input const &in, unsigned const cnt)
{
  if (g_logn != cnt) return false;
  bool ok{true};
  for (unsigned i = 0; i < cnt; ++i) ok = ok & (g_log[i] == static_cast<u64>(static_cast<std::uint32_t>(in.v[i])));
  return ok;
}
u64 key32(int const x) { return static_cast<std::uint32_t>(x); }
bool p_ref(int const x) { return (verif_uf1(1, key32(x)) & 1U) != 0; }
bool P(int const x) { log_call(key32(x)); return p_ref(x); }
u64 f_ref(int const x) { return verif_uf1(2, key32(x)); }
u64 F(int const x) { log_call(key32(x)); return f_ref(x); }
u64 f2_ref(int const x) { return verif_uf1(3, key32(x)); }
u64 step_ref(int const x, u64 const s) { return verif_uf2(4, key32(x), s); }
unsigned eqkey(int const x) { return static_cast<unsigned>(verif_uf1(5, key32(x)) & 3U); }

// first index whose element satisfies p, or n
unsigned first_p(input const &in)
{
  unsigned r{in.n};
  for (unsigned i = in.n; i > 0; --i)
    if (p_ref(in.v[i - 1])) r = i - 1;
  return r;
}

// ---- map / map_optional / map_concat / fold / loop / reverse / join / generate_n / repeat
template <typename C>
void maps()
{
  input const in{fresh_input()};
  unsigned const n{in.n};
  C const c{build<C>(in)};
  u64 fx[maxn], opt[maxn], cat[2 * maxn];
  unsigned nopt{0}, ncat{0};
  for (unsigned i = 0; i < n; ++i)
  {
    fx[i] = f_ref(in.v[i]);
    if (p_ref(in.v[i])) opt[nopt++] = f_ref(in.v[i]);
    cat[ncat++] = f_ref(in.v[i]);
    if (p_ref(in.v[i])) cat[ncat++] = f2_ref(in.v[i]);
  }
  {
    log_reset();
    std::vector<u64> const r{fcppt::algorithm::map<std::vector<u64>>(c, [](int const x) { return F(x); })};
    verif_assert(seq_eq(r, fx, n), "map<vector>: result is f applied to every element, in order");
    verif_assert(log_is_prefix(in, n), "map<vector>: f is called once per element, in order");
    log_reset();
    std::list<u64> const l{fcppt::algorithm::map<std::list<u64>>(c, [](int const x) { return F(x); })};
    verif_assert(seq_eq(l, fx, n), "map<list>: result is f applied to every element, in order");
    verif_assert(log_is_prefix(in, n), "map<list>: f is called once per element, in order");
    // rvalue source
    std::vector<u64> const r2{fcppt::algorithm::map<std::vector<u64>>(build<C>(in), [](int const x) { return f_ref(x); })};
    verif_assert(seq_eq(r2, fx, n), "map from an rvalue source: same result");
  }
  {
    log_reset();
    std::vector<u64> const r{fcppt::algorithm::map_optional<std::vector<u64>>(
        c, [](int const x) { return P(x) ? fcppt::optional::object<u64>{f_ref(x)} : fcppt::optional::object<u64>{}; })};
    verif_out("nopt", nopt);
    verif_assert(seq_eq(r, opt, nopt), "map_optional: the non-empty results, in order");
    verif_assert(log_is_prefix(in, n), "map_optional: the function is called once per element, in order");
  }
  {
    log_reset();
    std::vector<u64> const r{fcppt::algorithm::map_concat<std::vector<u64>>(c, [](int const x) {
      return P(x) ? std::vector<u64>{f_ref(x), f2_ref(x)} : std::vector<u64>{f_ref(x)};
    })};
    verif_assert(seq_eq(r, cat, ncat), "map_concat: the concatenation of the per-element results, in order");
    verif_assert(log_is_prefix(in, n), "map_concat: the function is called once per element, in order");
  }
  {
    u64 const s0{verif_u64("s0")};
    u64 expect{s0};
    for (unsigned i = 0; i < n; ++i) expect = step_ref(in.v[i], expect);
    log_reset();
    u64 const r{fcppt::algorithm::fold(c, s0, [](int const x, u64 const s) { log_call(key32(x)); return step_ref(x, s); })};
    verif_assert(r == expect, "fold: s_i = f(e_i, s_{i-1}) from the left");
    verif_assert(log_is_prefix(in, n), "fold: one step per element, in order");
  }
  {
    log_reset();
    fcppt::algorithm::loop(c, [](int const x) { log_call(key32(x)); });
    verif_assert(log_is_prefix(in, n), "loop: the body runs once per element, in order");
  }
  if constexpr (!std::is_same_v<C, std::forward_list<int>>)
  {
    int rev[maxn];
    for (unsigned i = 0; i < n; ++i) rev[i] = in.v[n - 1 - i];
    C const r{fcppt::algorithm::reverse(c)};
    verif_assert(seq_eq(r, rev, n), "reverse(lvalue): the elements in reverse order");
    verif_assert(seq_eq(c, in.v, n), "reverse(lvalue) leaves its argument untouched");
    C const r2{fcppt::algorithm::reverse(build<C>(in))};
    verif_assert(seq_eq(r2, rev, n), "reverse(rvalue): the elements in reverse order");
    int jn[3 * maxn];
    for (unsigned i = 0; i < n; ++i) { jn[i] = in.v[i]; jn[n + i] = rev[i]; jn[2 * n + i] = in.v[i]; }
    C const j2{fcppt::container::join(c, r)};
    verif_assert(seq_eq(j2, jn, 2 * n), "container::join(a,b): a followed by b");
    C const j3{fcppt::container::join(build<C>(in), r, c)};
    verif_assert(seq_eq(j3, jn, 3 * n), "container::join(a,b,c): a, b, c in order");
    C const j1{fcppt::container::join(c)};
    verif_assert(seq_eq(j1, in.v, n), "container::join(a) == a");
  }
  {
    unsigned calls{0};
    std::vector<u64> const r{fcppt::algorithm::generate_n<std::vector<u64>>(n, [&calls] { return verif_uf1(6, calls++); })};
    u64 gen[maxn];
    for (unsigned i = 0; i < n; ++i) gen[i] = verif_uf1(6, i);
    verif_assert(calls == n && seq_eq(r, gen, n), "generate_n: n calls, results in call order");
    unsigned reps{0};
    fcppt::algorithm::repeat(n, [&reps] { ++reps; });
    verif_assert(reps == n, "repeat(n, f) calls f exactly n times");
  }
  verif_reach("maps-end");
}

// ---- repeat with signed counts: "calls the function count times" - never for a count <= 0, whatever the count type
template <typename T>
void repeat_signed()
{
  T const count{static_cast<T>(verif_u64("count"))};
  verif_assume(count <= 3);
  unsigned calls{0};
  fcppt::algorithm::repeat(count, [&calls] { ++calls; });
  verif_assert(calls == (count > 0 ? static_cast<unsigned>(count) : 0U), "repeat(count, f): f is called count times, not at all for count <= 0");
  verif_reach("repeat-signed-end");
}
VERIF_HARNESS(h_repeat_i8) { repeat_signed<signed char>(); }
VERIF_HARNESS(h_repeat_i16) { repeat_signed<short>(); }
VERIF_HARNESS(h_repeat_i32) { repeat_signed<int>(); }
VERIF_HARNESS(h_repeat_i64) { repeat_signed<long>(); }
//@harness h_repeat_{T} for T in i8,i16,i32,i64 tier=quick loop=8

// ---- searches with a predicate: visit order and early stop
template <typename C>
void searches()
{
  input const in{fresh_input()};
  unsigned const n{in.n};
  C c{build<C>(in)};
  C const &cc{c};
  unsigned const fp{first_p(in)}; // first element satisfying p
  unsigned fnp{n}; // first element not satisfying p
  for (unsigned i = n; i > 0; --i)
    if (!p_ref(in.v[i - 1])) fnp = i - 1;
  verif_out("first_p", fp);
  {
    log_reset();
    bool const r{fcppt::algorithm::all_of(cc, [](int const x) { return P(x); })};
    verif_assert(r == (fnp == n), "all_of: true iff every element satisfies the predicate");
    verif_assert(log_is_prefix(in, fnp == n ? n : fnp + 1), "all_of: visits in order and stops at the first failing element");
  }
  {
    log_reset();
    bool const r{fcppt::algorithm::contains_if(cc, [](int const x) { return P(x); })};
    verif_assert(r == (fp != n), "contains_if: true iff some element satisfies the predicate");
    verif_assert(log_is_prefix(in, fp == n ? n : fp + 1), "contains_if: visits in order and stops at the first match");
  }
  {
    auto const r{fcppt::algorithm::find_if_opt(c, [](int const x) { return p_ref(x); })};
    verif_assert(r.has_value() == (fp != n), "find_if_opt: a value iff some element matches");
    if (r.has_value())
      verif_assert(static_cast<unsigned>(std::distance(c.begin(), r.get_unsafe())) == fp, "find_if_opt: iterator to the first match");
    auto const rc{fcppt::algorithm::find_if_opt(cc, [](int const x) { return p_ref(x); })};
    verif_assert(rc.has_value() == (fp != n), "find_if_opt (const range): a value iff some element matches");
  }
  {
    log_reset();
    fcppt::optional::object<u64> const r{fcppt::algorithm::find_by_opt(
        cc, [](int const x) { return P(x) ? fcppt::optional::object<u64>{f_ref(x)} : fcppt::optional::object<u64>{}; })};
    verif_assert(r.has_value() == (fp != n), "find_by_opt: a value iff the function yields one for some element");
    if (r.has_value() && fp != n) verif_assert(r.get_unsafe() == f_ref(in.v[fp]), "find_by_opt: the result for the first such element");
    verif_assert(log_is_prefix(in, fp == n ? n : fp + 1), "find_by_opt: visits in order and stops at the first non-empty result");
  }
  {
    log_reset();
    fcppt::algorithm::loop_break(cc, [](int const x) { return P(x) ? fcppt::loop::break_ : fcppt::loop::continue_; });
    verif_assert(log_is_prefix(in, fp == n ? n : fp + 1), "loop_break: visits in order up to and including the element that breaks");
  }
  {
    u64 const s0{verif_u64("s0")};
    u64 expect{s0};
    for (unsigned i = 0; i < n && i <= fp; ++i) expect = step_ref(in.v[i], expect);
    log_reset();
    u64 const r{fcppt::algorithm::fold_break(cc, s0, [](int const x, u64 const s) {
      return std::make_pair(P(x) ? fcppt::loop::break_ : fcppt::loop::continue_, step_ref(x, s));
    })};
    verif_assert(r == expect, "fold_break: folds up to and including the first element that breaks");
    verif_assert(log_is_prefix(in, fp == n ? n : fp + 1), "fold_break: no call after the break");
  }
  verif_reach("searches-end");
}

// ---- searches for a value
template <typename C>
void finds()
{
  input const in{fresh_input()};
  unsigned const n{in.n};
  C c{build<C>(in)};
  C const &cc{c};
  int const val{static_cast<int>(verif_u32("val"))};
  unsigned first{n};
  for (unsigned i = n; i > 0; --i)
    if (in.v[i - 1] == val) first = i - 1;
  verif_out("first", first);
  verif_assert(fcppt::algorithm::contains(cc, val) == (first != n), "contains: true iff some element equals the value");
  auto const r{fcppt::algorithm::find_opt(c, val)};
  verif_assert(r.has_value() == (first != n), "find_opt: a value iff some element equals the value");
  if (r.has_value()) verif_assert(static_cast<unsigned>(std::distance(c.begin(), r.get_unsafe())) == first, "find_opt: iterator to the first occurrence");
  auto const rc{fcppt::algorithm::find_opt(cc, val)};
  verif_assert(rc.has_value() == (first != n), "find_opt (const range): a value iff some element equals the value");
  if constexpr (std::is_same_v<typename std::iterator_traits<typename C::iterator>::iterator_category, std::random_access_iterator_tag>)
  {
    auto const ix{fcppt::algorithm::index_of(cc, val)};
    verif_assert(ix.has_value() == (first != n), "index_of: a value iff some element equals the value");
    if (ix.has_value()) verif_assert(ix.get_unsafe() == first, "index_of: the index of the first occurrence");
    // at_optional
    typename C::size_type const idx{verif_u64("idx")};
    auto const a{fcppt::container::at_optional(c, idx)};
    verif_assert(a.has_value() == (idx < n), "at_optional: a value exactly for valid indices");
    if (a.has_value()) verif_assert(&a.get_unsafe().get() == &c[idx], "at_optional: a reference to the element at the index");
    auto const ac{fcppt::container::at_optional(cc, idx)};
    verif_assert(ac.has_value() == (idx < n), "at_optional (const): a value exactly for valid indices");
    if (ac.has_value()) verif_assert(&ac.get_unsafe().get() == &cc[idx], "at_optional (const): a reference to the element at the index");
  }
  verif_reach("finds-end");
}

// ---- sorted input: equal_range / binary_search
template <typename C>
void sorted()
{
  input const in{fresh_input()};
  unsigned const n{in.n};
  for (unsigned i = 0; i + 1 < n; ++i) verif_assume(in.v[i] <= in.v[i + 1]); // documented precondition: sorted
  C c{build<C>(in)};
  int const val{static_cast<int>(verif_u32("val"))};
  unsigned less{0}, leq{0};
  for (unsigned i = 0; i < n; ++i)
  {
    if (in.v[i] < val) ++less;
    if (in.v[i] <= val) ++leq;
  }
  verif_out("less", less);
  verif_out("leq", leq);
  auto const er{fcppt::algorithm::equal_range(c, val)};
  verif_assert(static_cast<unsigned>(std::distance(c.begin(), er.begin())) == less, "equal_range: begins after the elements less than the value");
  verif_assert(static_cast<unsigned>(std::distance(c.begin(), er.end())) == leq, "equal_range: ends after the elements not greater than the value");
  auto const bs{fcppt::algorithm::binary_search(c, val)};
  verif_assert(bs.has_value() == (leq - less == 1U), "binary_search: a value iff exactly one element is equivalent to the value");
  if (bs.has_value())
  {
    verif_assert(static_cast<unsigned>(std::distance(c.begin(), bs.get_unsafe())) == less, "binary_search: iterator to that element");
    verif_assert(*bs.get_unsafe() == val, "binary_search: the element found equals the value");
  }
  verif_reach("sorted-end");
}

// ---- mutations: remove / remove_if / unique / unique_if / sequence_iteration (which = the function under test: one per
// harness, so that the forks of the five references do not multiply)
template <typename C>
void mutations(unsigned const which)
{
  input const in{fresh_input()};
  unsigned const n{in.n};
  int keep[maxn];
  unsigned nk{0};
  C c{build<C>(in)};
  log_reset();
  if (which == 0)
  {
    for (unsigned i = 0; i < n; ++i)
      if (!p_ref(in.v[i])) keep[nk++] = in.v[i];
    bool const r{fcppt::algorithm::remove_if(c, [](int const x) { return P(x); })};
    verif_assert(seq_eq(c, keep, nk), "remove_if: exactly the elements not matching the predicate remain, in order");
    verif_assert(r == (nk != n), "remove_if: returns whether something was removed");
    verif_assert(g_logn == n, "remove_if: the predicate is applied exactly once per element");
  }
  else if (which == 1)
  {
    int const val{static_cast<int>(verif_u32("val"))};
    for (unsigned i = 0; i < n; ++i)
      if (in.v[i] != val) keep[nk++] = in.v[i];
    bool const r{fcppt::algorithm::remove(c, val)};
    verif_assert(seq_eq(c, keep, nk), "remove: exactly the elements different from the value remain, in order");
    verif_assert(r == (nk != n), "remove: returns whether something was removed");
  }
  else if (which == 2)
  {
    for (unsigned i = 0; i < n; ++i)
      if (i == 0 || in.v[i] != in.v[i - 1]) keep[nk++] = in.v[i];
    fcppt::algorithm::unique(c);
    verif_assert(seq_eq(c, keep, nk), "unique: the first element of every run of equal elements remains");
  }
  else if (which == 3)
  {
    for (unsigned i = 0; i < n; ++i)
      if (i == 0 || eqkey(in.v[i]) != eqkey(in.v[i - 1])) keep[nk++] = in.v[i];
    fcppt::algorithm::unique_if(c, [](int const a, int const b) { return eqkey(a) == eqkey(b); });
    verif_assert(seq_eq(c, keep, nk), "unique_if: the first element of every run of equivalent elements remains");
  }
  else
  {
    for (unsigned i = 0; i < n; ++i)
      if (!p_ref(in.v[i])) keep[nk++] = in.v[i];
    fcppt::algorithm::sequence_iteration(
        c, [](int const x) { return P(x) ? fcppt::algorithm::update_action::remove : fcppt::algorithm::update_action::keep; });
    verif_assert(seq_eq(c, keep, nk), "sequence_iteration: exactly the elements whose action is keep remain, in order");
    verif_assert(log_is_prefix(in, n), "sequence_iteration: the action is applied once per element, in order");
  }
  verif_out("kept", nk);
  verif_reach("mutations-end");
}
}

using vec = std::vector<int>;
using lst = std::list<int>;
using deq = std::deque<int>;
using fwd = std::forward_list<int>;
#define H(name, ...) VERIF_HARNESS(name) { __VA_ARGS__; }
#define ALL(C) H(h_maps_##C, maps<C>()) H(h_searches_##C, searches<C>()) H(h_finds_##C, finds<C>()) H(h_sorted_##C, sorted<C>())
ALL(vec) ALL(lst) ALL(deq) ALL(fwd)
#define MU(C) H(h_removeif_##C, mutations<C>(0)) H(h_remove_##C, mutations<C>(1)) H(h_unique_##C, mutations<C>(2)) H(h_uniqueif_##C, mutations<C>(3)) H(h_seqiter_##C, mutations<C>(4))
MU(vec) MU(lst) MU(deq)
//@harness h_maps_{C} for C in vec,lst,deq,fwd param n=0..3 tier=quick loop=80
//@harness h_searches_{C} for C in vec,lst,deq,fwd param n=0..3 tier=quick loop=80
//@harness h_finds_{C} for C in vec,lst,deq,fwd param n=0..3 tier=quick loop=80
//@harness h_sorted_{C} for C in vec,lst,deq,fwd param n=0..3 tier=quick loop=80
//@harness h_{F}_{C} for F in removeif,remove,unique,uniqueif,seqiter for C in vec,lst,deq param n=0..3 tier=quick loop=80
//@harness h_maps_{C} for C in vec,lst,deq,fwd param n=4..5 tier=thorough loop=80
//@harness h_searches_{C} for C in vec,lst,deq,fwd param n=4..5 tier=thorough loop=80
//@harness h_finds_{C} for C in vec,lst,deq,fwd param n=4..5 tier=thorough loop=80
//@harness h_sorted_{C} for C in vec,lst,deq,fwd param n=4..5 tier=thorough loop=80
//@harness h_{F}_{C} for F in removeif,remove,unique,uniqueif,seqiter for C in vec,lst,deq param n=4..5 tier=thorough loop=80
