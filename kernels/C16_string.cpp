// C16 (part 2) - split_string / join_strings.
// Real code: fcppt::algorithm::split_string, fcppt::algorithm::join_strings (std::string executed from the libstdc++ headers).
// Inputs: a string whose length is a shape parameter and whose characters (and the delimiter) are fully symbolic bytes.
// Oracle: pieces = the maximal delimiter-free runs between consecutive delimiters (1 + number of delimiters many, empty
// pieces at both ends and between adjacent delimiters included); join_strings(split_string(s,d), d) == s; join_strings of an
// arbitrary list of strings with a multi-character delimiter is s1 + d + s2 + ... + sk, and "" for the empty list.
// Outside the claim: wide strings (same template, wchar_t traits calls wmemcpy/wmemcmp models only).
//@property C16
#include "verif_api.h"
#include <fcppt/algorithm/join_strings.hpp>
#include <fcppt/algorithm/split_string.hpp>
#include <cstdint>
#include <list>
#include <string>
#include <vector>

namespace
{
constexpr unsigned maxlen = 8;

std::string fresh_string(char const *const name, unsigned const len)
{
  std::string s(len, '\0');
  for (unsigned i = 0; i < len; ++i) s[i] = static_cast<char>(verif_u8(name));
  return s;
}

bool str_eq(std::string const &s, char const *const p, unsigned const n)
{
  if (s.size() != n) return false;
  bool ok{true};
  for (unsigned i = 0; i < n; ++i) ok = ok & (s[i] == p[i]);
  return ok;
}

void split_join()
{
  unsigned const len{static_cast<unsigned>(verif_param("len"))};
  std::string const s{fresh_string("ch", len)};
  char const d{static_cast<char>(verif_u8("delim"))};
  // reference: piece k starts after the k-th delimiter
  unsigned start[maxlen + 1], plen[maxlen + 1], np{0};
  start[0] = 0;
  for (unsigned i = 0; i < len; ++i)
    if (s[i] == d)
    {
      plen[np] = i - start[np];
      ++np;
      start[np] = i + 1;
    }
  plen[np] = len - start[np];
  ++np;
  verif_out("pieces", np);
  std::vector<std::string> const r{fcppt::algorithm::split_string(s, d)};
  verif_assert(r.size() == np, "split_string: one piece more than there are delimiters");
  if (r.size() == np)
    for (unsigned k = 0; k < np; ++k)
      verif_assert(str_eq(r[k], s.data() + start[k], plen[k]), "split_string: piece k is the text between the k-th and (k+1)-th delimiter");
  std::string const back{fcppt::algorithm::join_strings(r, std::string(1, d))};
  verif_assert(back == s, "join_strings(split_string(s,d),d) == s");
  verif_reach("split_join-end");
}

// join_strings over an arbitrary list of short strings with a two-character delimiter
template <typename Range>
void join()
{
  unsigned const k{static_cast<unsigned>(verif_param("k"))};
  unsigned const l0{static_cast<unsigned>(verif_param("l0"))}, l1{static_cast<unsigned>(verif_param("l1"))};
  Range parts{};
  char expect[64];
  unsigned ne{0};
  std::string const d{fresh_string("d", 2)};
  for (unsigned i = 0; i < k; ++i)
  {
    std::string const p{fresh_string("p", i % 2 == 0 ? l0 : l1)};
    if (i != 0)
      for (char const c : d) expect[ne++] = c;
    for (char const c : p) expect[ne++] = c;
    parts.insert(parts.end(), p);
  }
  std::string const r{fcppt::algorithm::join_strings(parts, d)};
  verif_out("size", r.size());
  verif_assert(str_eq(r, expect, ne), "join_strings: s1 + d + s2 + ... + sk (empty for no strings)");
  verif_reach("join-end");
}
}

VERIF_HARNESS(h_split_join) { split_join(); }
VERIF_HARNESS(h_join_vec) { join<std::vector<std::string>>(); }
VERIF_HARNESS(h_join_lst) { join<std::list<std::string>>(); }
//@harness h_split_join param len=0..4 tier=quick loop=80
//@harness h_split_join param len=5..7 tier=thorough loop=80
//@harness h_join_{C} for C in vec,lst param k=0..3 param l0=0,2 param l1=0,1 tier=quick loop=80
