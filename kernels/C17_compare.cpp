// C17 (part 2) - ==, !=, <, <=, >, >= and hash are mutually coherent for the fcppt value types.
// For every type a "key" (the list of its observable components, in canonical form: inactive alternatives / the value
// of an empty optional do not count) is kept beside three values a, b, c built by the REAL constructors from fully
// symbolic 32-bit components (and symbolic shapes: has_value, which alternative, which referent).  Asserted through the
// real operators:
//   ==  : (a == b) <=> keys equal  (hence an equivalence), and directly: reflexive, symmetric, transitive
//   !=  : (a != b) == !(a == b)
//   <   : irreflexive, asymmetric, transitive; a == b => neither a < b nor b < a; neither a < b nor b < a => a == b
//         (incomparability is ==, so < is a strict weak - in fact total - order compatible with ==); == is a congruence
//         for < ;  <=, >, >= (where offered) are the derived relations of <
//   hash: a == b => hash(a) == hash(b)   (for the types that offer a hash)
// Types: optional, either, variant, tuple, array, record, strong_typedef, vector, dim, matrix, box, sphere(int),
// bitfield, enum array, reference, recursive, shared_ptr (address identity), two nested combinations (quick tier);
// grid, tree, raw_vector with small symbolic shapes (thorough tier, heap).
// Box coordinates range over [-2^30, 2^30) (size = max - pos must not overflow); everything else is full range.
// Outside the claim: floating point components (NaN), hash *quality*, types whose comparison needs iostream/locale.
//@property C17
// value types whose ==/hash coherence is decided in more depth by their own property's kernels, imported here:
// bitfield results of ~ in narrow words (C10), tree == over a shape catalogue (C09)
//@import C10_bitfield.cpp only=^h_(ops|self|rel)_(3|9)_(u8|u16)$
//@import C09_compare.cpp only=^h_cmp_(shapes|reinsert)
//@import C04_variant.cpp only=^h_var_(compare_hetero|binary)_
//@models libc_single
#include "verif_api.h"
#include <fcppt/make_ref.hpp>
#include <fcppt/make_shared_ptr.hpp>
#include <fcppt/recursive.hpp>
#include <fcppt/recursive_comparison.hpp>
#include <fcppt/reference.hpp>
#include <fcppt/reference_comparison.hpp>
#include <fcppt/reference_std_hash.hpp>
#include <fcppt/shared_ptr.hpp>
#include <fcppt/shared_ptr_std_hash.hpp>
#include <fcppt/strong_typedef.hpp>
#include <fcppt/strong_typedef_comparison.hpp>
#include <fcppt/strong_typedef_std_hash.hpp>
#include <fcppt/array/comparison.hpp>
#include <fcppt/array/object_impl.hpp>
#include <fcppt/container/bitfield/comparison.hpp>
#include <fcppt/container/bitfield/hash.hpp>
#include <fcppt/container/bitfield/init.hpp>
#include <fcppt/container/bitfield/object_impl.hpp>
#include <fcppt/container/bitfield/std_hash.hpp>
#include <fcppt/container/grid/comparison.hpp>
#include <fcppt/container/grid/object_impl.hpp>
#include <fcppt/container/raw_vector/comparison.hpp>
#include <fcppt/container/raw_vector/object_impl.hpp>
#include <fcppt/container/tree/comparison.hpp>
#include <fcppt/container/tree/object_impl.hpp>
#include <fcppt/either/comparison.hpp>
#include <fcppt/either/make_failure.hpp>
#include <fcppt/either/make_success.hpp>
#include <fcppt/either/object_impl.hpp>
#include <fcppt/enum/array.hpp>
#include <fcppt/enum/array_comparison.hpp>
#include <fcppt/enum/array_init.hpp>
#include <fcppt/math/box/comparison.hpp>
#include <fcppt/math/box/object_impl.hpp>
#include <fcppt/math/dim/comparison.hpp>
#include <fcppt/math/dim/object_impl.hpp>
#include <fcppt/math/dim/static.hpp>
#include <fcppt/math/dim/std_hash.hpp>
#include <fcppt/math/matrix/comparison.hpp>
#include <fcppt/math/matrix/object_impl.hpp>
#include <fcppt/math/matrix/row.hpp>
#include <fcppt/math/matrix/static.hpp>
#include <fcppt/math/matrix/std_hash.hpp>
#include <fcppt/math/sphere/comparison.hpp>
#include <fcppt/math/sphere/object_impl.hpp>
#include <fcppt/math/vector/comparison.hpp>
#include <fcppt/math/vector/object_impl.hpp>
#include <fcppt/math/vector/static.hpp>
#include <fcppt/math/vector/std_hash.hpp>
#include <fcppt/optional/comparison.hpp>
#include <fcppt/optional/object_impl.hpp>
#include <fcppt/record/comparison.hpp>
#include <fcppt/record/element.hpp>
#include <fcppt/record/make_label.hpp>
#include <fcppt/record/object_impl.hpp>
#include <fcppt/tuple/comparison.hpp>
#include <fcppt/tuple/object_impl.hpp>
#include <fcppt/variant/comparison.hpp>
#include <fcppt/variant/object_impl.hpp>
#include <cstddef>
#include <cstdint>
#include <functional>
#include <type_traits>
#include <utility>

namespace
{
using u64 = std::uint64_t;
template <std::size_t K> struct key { u64 k[K]; };
template <std::size_t K>
bool keq(key<K> const &x, key<K> const &y)
{
  bool r{true};
  for (std::size_t i = 0; i < K; ++i) r = r & (x.k[i] == y.k[i]);
  return r;
}
int s32(char const *const n) { return static_cast<int>(verif_u32(n)); }
u64 kv(int const v) { return static_cast<u64>(static_cast<std::uint32_t>(v)); }
struct no_ctx {};

// ------------------------------------------------------------------ the generic checks
template <typename Tr>
void coherence()
{
  typename Tr::ctx ctx;
  key<Tr::K> ka, kb, kc;
  auto const a{Tr::make(ctx, "a", ka)};
  auto const b{Tr::make(ctx, "b", kb)};
  auto const c{Tr::make(ctx, "c", kc)};
  bool const kab{keq(ka, kb)};
  verif_out("keys_equal", kab);
  bool const eab{a == b}, eba{b == a}, ebc{b == c}, eac{a == c};
  verif_assert(eab == kab, "a == b exactly when all observable components are equal");
  verif_assert(a == a, "== is reflexive");
  verif_assert(eab == eba, "== is symmetric");
  verif_assert(!(eab & ebc) | eac, "== is transitive");
  verif_assert((a != b) == !eab, "!= is the negation of ==");
  verif_assert(!(a != a), "a != a is false");
  if constexpr (Tr::has_less)
  {
    bool const lab{a < b}, lba{b < a}, lbc{b < c}, lac{a < c}, lca{c < a}, lcb{c < b};
    verif_assert(!(a < a), "< is irreflexive");
    verif_assert(!(lab & lba), "< is asymmetric");
    verif_assert(!(lab & lbc) | lac, "< is transitive");
    verif_assert(!eab | (!lab & !lba), "equal values are not ordered");
    verif_assert((lab | lba) | eab, "values that are not ordered either way are equal");
    verif_assert(!eab | ((lac == lbc) & (lca == lcb)), "== is a congruence for <");
    if constexpr (Tr::has_rel)
    {
      verif_assert((a <= b) == !lba, "a <= b <=> !(b < a)");
      verif_assert((a > b) == lba, "a > b <=> b < a");
      verif_assert((a >= b) == !lab, "a >= b <=> !(a < b)");
    }
  }
  if constexpr (Tr::has_hash)
  {
    std::size_t const ha{Tr::hash(a)}, hb{Tr::hash(b)};
    verif_assert(!eab | (ha == hb), "equal values have equal hashes");
    verif_assert(Tr::hash(a) == ha, "hash is a function of the value");
  }
  verif_reach("coherence-end");
}

// ------------------------------------------------------------------ the types
struct t_optional
{
  using type = fcppt::optional::object<int>; using ctx = no_ctx;
  static constexpr std::size_t K = 2; static constexpr bool has_less = true, has_rel = false, has_hash = false;
  static type make(ctx &, char const *const n, key<K> &k)
  {
    bool const h{(verif_u8(n) & 1U) != 0}; int const v{s32(n)};
    k = {{h, h ? kv(v) : 0}};
    return h ? type{v} : type{};
  }
};
struct t_either
{
  using type = fcppt::either::object<unsigned, int>; using ctx = no_ctx;
  static constexpr std::size_t K = 2; static constexpr bool has_less = false, has_rel = false, has_hash = false;
  static type make(ctx &, char const *const n, key<K> &k)
  {
    bool const s{(verif_u8(n) & 1U) != 0}; int const v{s32(n)};
    k = {{s, kv(v)}};
    return s ? fcppt::either::make_success<unsigned>(int{v}) : fcppt::either::make_failure<int>(static_cast<unsigned>(v));
  }
};
struct t_variant
{
  using type = fcppt::variant::object<int, unsigned, short>; using ctx = no_ctx;
  static constexpr std::size_t K = 2; static constexpr bool has_less = true, has_rel = false, has_hash = false;
  static type make(ctx &, char const *const n, key<K> &k)
  {
    unsigned const w{verif_u8(n)}; int const v{s32(n)};
    verif_assume(w < 3);
    if (w == 0) { k = {{0, kv(v)}}; return type{int{v}}; }
    if (w == 1) { k = {{1, kv(v)}}; return type{static_cast<unsigned>(v)}; }
    k = {{2, kv(static_cast<short>(v))}};
    return type{static_cast<short>(v)};
  }
};
struct t_tuple
{
  using type = fcppt::tuple::object<int, unsigned, short>; using ctx = no_ctx;
  static constexpr std::size_t K = 3; static constexpr bool has_less = false, has_rel = false, has_hash = false;
  static type make(ctx &, char const *const n, key<K> &k)
  {
    int const x{s32(n)}; unsigned const y{verif_u32(n)}; short const z{static_cast<short>(verif_u16(n))};
    k = {{kv(x), y, kv(z)}};
    return type{int{x}, unsigned{y}, short{z}};
  }
};
struct t_array
{
  using type = fcppt::array::object<int, 3>; using ctx = no_ctx;
  static constexpr std::size_t K = 3; static constexpr bool has_less = false, has_rel = false, has_hash = false;
  static type make(ctx &, char const *const n, key<K> &k)
  {
    int const x{s32(n)}, y{s32(n)}, z{s32(n)};
    k = {{kv(x), kv(y), kv(z)}};
    return type{int{x}, int{y}, int{z}};
  }
};
FCPPT_RECORD_MAKE_LABEL(label_i);
FCPPT_RECORD_MAKE_LABEL(label_u);
struct t_record
{
  using type = fcppt::record::object<fcppt::record::element<label_i, int>, fcppt::record::element<label_u, unsigned>>; using ctx = no_ctx;
  static constexpr std::size_t K = 2; static constexpr bool has_less = false, has_rel = false, has_hash = false;
  static type make(ctx &, char const *const n, key<K> &k)
  {
    int const x{s32(n)}; unsigned const y{verif_u32(n)};
    k = {{kv(x), y}};
    return type{label_i{} = x, label_u{} = y};
  }
};
// equivalent records whose labels are declared in a different order (same element types, so that a positional comparison
// of the storage would type-check): == is label by label
FCPPT_RECORD_MAKE_LABEL(label_a);
FCPPT_RECORD_MAKE_LABEL(label_b);
void record_permuted()
{
  using r_ab = fcppt::record::object<fcppt::record::element<label_a, int>, fcppt::record::element<label_b, int>>;
  using r_ba = fcppt::record::object<fcppt::record::element<label_b, int>, fcppt::record::element<label_a, int>>;
  int const a1{s32("a1")}, b1{s32("b1")}, a2{s32("a2")}, b2{s32("b2")};
  r_ab const x{label_a{} = a1, label_b{} = b1};
  r_ba const y{label_b{} = b2, label_a{} = a2};
  r_ba const y2{label_a{} = a2, label_b{} = b2};
  bool const same{a1 == a2 && b1 == b2};
  verif_assert((x == y) == same, "record == compares label by label, whatever the declaration order");
  verif_assert((y == x) == same, "record == is symmetric across declaration orders");
  verif_assert((x != y) == !same, "record != is the negation of ==");
  verif_assert(y == y2, "the order of the initialisers does not matter");
  verif_reach("record-permuted-end");
}
struct st_tag {};
struct t_strong
{
  using type = fcppt::strong_typedef<int, st_tag>; using ctx = no_ctx;
  static constexpr std::size_t K = 1; static constexpr bool has_less = true, has_rel = true, has_hash = true;
  static type make(ctx &, char const *const n, key<K> &k) { int const x{s32(n)}; k = {{kv(x)}}; return type{x}; }
  static std::size_t hash(type const &v) { return std::hash<type>{}(v); }
};
struct t_vector
{
  using type = fcppt::math::vector::static_<int, 3>; using ctx = no_ctx;
  static constexpr std::size_t K = 3; static constexpr bool has_less = true, has_rel = true, has_hash = true;
  static type make(ctx &, char const *const n, key<K> &k) { int const x{s32(n)}, y{s32(n)}, z{s32(n)}; k = {{kv(x), kv(y), kv(z)}}; return type{x, y, z}; }
  static std::size_t hash(type const &v) { return std::hash<type>{}(v); }
};
struct t_dim
{
  using type = fcppt::math::dim::static_<int, 2>; using ctx = no_ctx;
  static constexpr std::size_t K = 2; static constexpr bool has_less = true, has_rel = true, has_hash = true;
  static type make(ctx &, char const *const n, key<K> &k) { int const x{s32(n)}, y{s32(n)}; k = {{kv(x), kv(y)}}; return type{x, y}; }
  static std::size_t hash(type const &v) { return std::hash<type>{}(v); }
};
struct t_matrix
{
  using type = fcppt::math::matrix::static_<int, 2, 2>; using ctx = no_ctx;
  static constexpr std::size_t K = 4; static constexpr bool has_less = false, has_rel = false, has_hash = true;
  static type make(ctx &, char const *const n, key<K> &k)
  {
    int const x{s32(n)}, y{s32(n)}, z{s32(n)}, w{s32(n)};
    k = {{kv(x), kv(y), kv(z), kv(w)}};
    return type{fcppt::math::matrix::row(x, y), fcppt::math::matrix::row(z, w)};
  }
  static std::size_t hash(type const &v) { return std::hash<type>{}(v); }
};
int coord(char const *const n) { int const v{s32(n)}; verif_assume(v >= -(1 << 30) && v < (1 << 30)); return v; }
struct t_box
{
  using type = fcppt::math::box::object<int, 2>; using ctx = no_ctx;
  static constexpr std::size_t K = 4; static constexpr bool has_less = true, has_rel = false, has_hash = false;
  static type make(ctx &, char const *const n, key<K> &k)
  {
    int const x{coord(n)}, y{coord(n)}, X{coord(n)}, Y{coord(n)};
    k = {{kv(x), kv(y), kv(X), kv(Y)}};
    return type{type::vector{x, y}, type::vector{X, Y}};
  }
};
struct t_sphere
{
  using type = fcppt::math::sphere::object<int, 2>; using ctx = no_ctx;
  static constexpr std::size_t K = 3; static constexpr bool has_less = false, has_rel = false, has_hash = false;
  static type make(ctx &, char const *const n, key<K> &k)
  {
    int const x{s32(n)}, y{s32(n)}, r{s32(n)};
    k = {{kv(x), kv(y), kv(r)}};
    return type{type::point_type{x, y}, r};
  }
};
enum class e5 : unsigned { first = 0, fcppt_maximum = 4 };
enum class e3 { e0, e1, e2, fcppt_maximum = e2 };
struct t_bitfield
{
  using type = fcppt::container::bitfield::object<e5, std::uint8_t>; using ctx = no_ctx;
  static constexpr std::size_t K = 1; static constexpr bool has_less = false, has_rel = false, has_hash = true;
  static type make(ctx &, char const *const n, key<K> &k)
  {
    unsigned const bits{verif_u8(n) & 31U};
    k = {{bits}};
    return fcppt::container::bitfield::init<type>([bits](e5 const e) { return ((bits >> static_cast<unsigned>(e)) & 1U) != 0; });
  }
  static std::size_t hash(type const &v) { return std::hash<type>{}(v); }
};
struct t_enum_array
{
  using type = fcppt::enum_::array<e3, int>; using ctx = no_ctx;
  static constexpr std::size_t K = 3; static constexpr bool has_less = false, has_rel = false, has_hash = false;
  static type make(ctx &, char const *const n, key<K> &k)
  {
    int const v[3]{s32(n), s32(n), s32(n)};
    k = {{kv(v[0]), kv(v[1]), kv(v[2])}};
    return fcppt::enum_::array_init<type>([&v]<e3 E>(std::integral_constant<e3, E>) { return v[static_cast<unsigned>(E)]; });
  }
};
struct t_reference
{
  struct ctx { int cells[3]{1, 1, 1}; };
  using type = fcppt::reference<int>;
  static constexpr std::size_t K = 1; static constexpr bool has_less = true, has_rel = false, has_hash = true;
  static type make(ctx &c, char const *const n, key<K> &k)
  {
    unsigned const i{verif_u8(n)};
    verif_assume(i < 3);
    k = {{i}};
    return fcppt::make_ref(c.cells[i]); // all referents hold the same value: equality is identity, not value equality
  }
  static std::size_t hash(type const &v) { return std::hash<type>{}(v); }
};
struct t_recursive
{
  using type = fcppt::recursive<int>; using ctx = no_ctx;
  static constexpr std::size_t K = 1; static constexpr bool has_less = false, has_rel = false, has_hash = false;
  static type make(ctx &, char const *const n, key<K> &k) { int const x{s32(n)}; k = {{kv(x)}}; return type{x}; }
};
struct t_shared_ptr
{
  struct ctx { fcppt::shared_ptr<int> pool[2]{fcppt::make_shared_ptr<int>(7), fcppt::make_shared_ptr<int>(7)}; };
  using type = fcppt::shared_ptr<int>;
  static constexpr std::size_t K = 1; static constexpr bool has_less = true, has_rel = false, has_hash = true;
  static type make(ctx &c, char const *const n, key<K> &k)
  {
    unsigned const i{verif_u8(n)};
    verif_assume(i < 2);
    k = {{i}};
    return i == 0 ? c.pool[0] : c.pool[1];
  }
  static std::size_t hash(type const &v) { return std::hash<type>{}(v); }
};
// nested: optional<tuple<int, strong_typedef<int>>>  (==, != only: tuple has no <)
struct t_nested_eq
{
  using inner = fcppt::tuple::object<int, fcppt::strong_typedef<int, st_tag>>;
  using type = fcppt::optional::object<inner>; using ctx = no_ctx;
  static constexpr std::size_t K = 3; static constexpr bool has_less = false, has_rel = false, has_hash = false;
  static type make(ctx &, char const *const n, key<K> &k)
  {
    bool const h{(verif_u8(n) & 1U) != 0}; int const x{s32(n)}, y{s32(n)};
    k = {{h, h ? kv(x) : 0, h ? kv(y) : 0}};
    return h ? type{inner{int{x}, fcppt::strong_typedef<int, st_tag>{y}}} : type{};
  }
};
// nested: variant<optional<int>, vector<int,2>>  (all of ==, !=, <)
struct t_nested_ord
{
  using type = fcppt::variant::object<fcppt::optional::object<int>, fcppt::math::vector::static_<int, 2>>; using ctx = no_ctx;
  static constexpr std::size_t K = 3; static constexpr bool has_less = true, has_rel = false, has_hash = false;
  static type make(ctx &, char const *const n, key<K> &k)
  {
    unsigned const w{verif_u8(n)}; int const x{s32(n)}, y{s32(n)};
    verif_assume(w < 3);
    if (w == 0) { k = {{0, 0, 0}}; return type{fcppt::optional::object<int>{}}; }
    if (w == 1) { k = {{0, 1, kv(x)}}; return type{fcppt::optional::object<int>{x}}; }
    k = {{1, kv(x), kv(y)}};
    return type{fcppt::math::vector::static_<int, 2>{x, y}};
  }
};

// ---- heap containers, small symbolic shapes (thorough tier)
struct t_grid
{
  using type = fcppt::container::grid::object<int, 2>; using ctx = no_ctx;
  static constexpr std::size_t K = 6; static constexpr bool has_less = true, has_rel = true, has_hash = false;
  static type make(ctx &, char const *const n, key<K> &k)
  {
    unsigned const w{verif_u8(n)}, h{verif_u8(n)};
    verif_assume(w <= 2 && h <= 2);
    int const v[4]{s32(n), s32(n), s32(n), s32(n)};
    k = {{w, h, 0, 0, 0, 0}};
    for (unsigned i = 0; i < w * h; ++i) k.k[2 + i] = kv(v[i]);
    return type{type::dim{w, h}, [&v, w](type::pos const &p) { return v[p.y() * w + p.x()]; }};
  }
};
// grids of DIFFERENT dimensions with the SAME element count (1x2 / 2x1, 0x0 / 0x1 / 1x0 ...): the shape of each grid is
// chosen by the solver from a catalogue, the contents are symbolic (so identical storage-order contents are included)
struct t_grid_shapes
{
  using type = fcppt::container::grid::object<int, 2>; using ctx = no_ctx;
  static constexpr std::size_t K = 4; static constexpr bool has_less = true, has_rel = true, has_hash = false; // (grid offers no hash)
  static type make(ctx &, char const *const n, key<K> &k)
  {
    static constexpr unsigned cat[7][2]{{0, 0}, {0, 1}, {1, 0}, {1, 1}, {1, 2}, {2, 1}, {0, 2}};
    unsigned const s{verif_u8(n)};
    verif_assume(s < 7);
    unsigned const w{cat[s][0]}, h{cat[s][1]};
    int const v[2]{s32(n), s32(n)};
    k = {{w, h, 0, 0}};
    for (unsigned i = 0; i < w * h; ++i) k.k[2 + i] = kv(v[i]);
    type g{type::dim{w, h}, [&v, w](type::pos const &p) { return v[p.y() * w + p.x()]; }};
    verif_assert(g.size() == type::dim{w, h} && g.content() == w * h, "grid size() is the dimension it was built with");
    return g;
  }
};
// shared_ptr built by the ALIASING constructor: ownership and stored address are independent.  Catalogue:
//   0: owner o1 -> &o1->a   1: owner o1 -> &o1->b   2: owner o2 -> &o2->a   3: owner o2 -> &o1->a (other owner, same address as 0)
//   4: owner o1 -> &global  5: owner o2 -> &global (different owners, same static object)   6: owner o2 -> &o2->b
// ==, != and hash are documented to compare the stored pointer (get_pointer), < "their pointers with std::less": the key
// is the stored address only, so < must not look at the owner (incomparability has to coincide with ==).
int shared_global{7};
struct t_shared_alias
{
  struct pair { int a, b; };
  struct ctx { fcppt::shared_ptr<pair> o1{fcppt::make_shared_ptr<pair>(pair{7, 7})}, o2{fcppt::make_shared_ptr<pair>(pair{7, 7})}; };
  using type = fcppt::shared_ptr<int>;
  static constexpr std::size_t K = 1; static constexpr bool has_less = true, has_rel = false, has_hash = true;
  static type make(ctx &c, char const *const n, key<K> &k)
  {
    unsigned const i{verif_u8(n)};
    verif_assume(i < 7);
    int *const addr[7]{&c.o1->a, &c.o1->b, &c.o2->a, &c.o1->a, &shared_global, &shared_global, &c.o2->b};
    static constexpr unsigned cls[7]{0, 1, 2, 0, 3, 3, 4};
    k = {{cls[i]}};
    type r{(i == 0 || i == 1 || i == 4) ? type{c.o1, addr[i]} : type{c.o2, addr[i]}};
    verif_assert(r.get_pointer() == addr[i] && &*r == addr[i], "aliasing constructor stores the given address");
    return r;
  }
  static std::size_t hash(type const &v) { return std::hash<type>{}(v); }
};
struct t_tree
{
  using type = fcppt::container::tree::object<int>; using ctx = no_ctx;
  // shape: root, nc <= 2 children, the first child may have one child of its own
  static constexpr std::size_t K = 6; static constexpr bool has_less = false, has_rel = false, has_hash = false;
  static type make(ctx &, char const *const n, key<K> &k)
  {
    unsigned const nc{verif_u8(n)}; bool const gc{(verif_u8(n) & 1U) != 0};
    verif_assume(nc <= 2);
    int const v[4]{s32(n), s32(n), s32(n), s32(n)};
    type t{int{v[0]}};
    k = {{nc, 0, kv(v[0]), 0, 0, 0}};
    if (nc >= 1)
    {
      type &c0{t.push_back(int{v[1]}).get()};
      k.k[3] = kv(v[1]);
      if (gc) { c0.push_back(int{v[3]}); k.k[1] = 1; k.k[5] = kv(v[3]); }
    }
    if (nc >= 2) { t.push_back(int{v[2]}); k.k[4] = kv(v[2]); }
    return t;
  }
};
struct t_raw_vector
{
  using type = fcppt::container::raw_vector::object<int>; using ctx = no_ctx;
  static constexpr std::size_t K = 4; static constexpr bool has_less = true, has_rel = true, has_hash = false;
  static type make(ctx &, char const *const n, key<K> &k)
  {
    unsigned const len{verif_u8(n)};
    verif_assume(len <= 3);
    int const v[3]{s32(n), s32(n), s32(n)};
    type r{};
    k = {{len, 0, 0, 0}};
    for (unsigned i = 0; i < len; ++i) { r.push_back(v[i]); k.k[1 + i] = kv(v[i]); }
    return r;
  }
};
}

#define H(name, ...) VERIF_HARNESS(name) { __VA_ARGS__; }
H(h_cmp_optional, coherence<t_optional>()) H(h_cmp_either, coherence<t_either>()) H(h_cmp_variant, coherence<t_variant>()) H(h_cmp_tuple, coherence<t_tuple>())
H(h_cmp_array, coherence<t_array>()) H(h_cmp_record, coherence<t_record>()) H(h_cmp_strong_typedef, coherence<t_strong>()) H(h_cmp_vector, coherence<t_vector>())
H(h_cmp_dim, coherence<t_dim>()) H(h_cmp_matrix, coherence<t_matrix>()) H(h_cmp_box, coherence<t_box>()) H(h_cmp_sphere, coherence<t_sphere>())
H(h_cmp_bitfield, coherence<t_bitfield>()) H(h_cmp_enum_array, coherence<t_enum_array>()) H(h_cmp_reference, coherence<t_reference>())
H(h_cmp_recursive, coherence<t_recursive>()) H(h_cmp_shared_ptr, coherence<t_shared_ptr>()) H(h_cmp_nested_eq, coherence<t_nested_eq>()) H(h_cmp_nested_ord, coherence<t_nested_ord>())
H(h_cmp_grid, coherence<t_grid>()) H(h_cmp_tree, coherence<t_tree>()) H(h_cmp_raw_vector, coherence<t_raw_vector>())
H(h_cmp_record_permuted, record_permuted())
//@harness h_cmp_record_permuted tier=quick
//@harness h_cmp_{T} for T in optional,either,variant,tuple,array,record,strong_typedef,vector,dim,matrix,box,sphere,bitfield,enum_array,reference,recursive,shared_ptr,nested_eq,nested_ord tier=quick loop=64
//@harness h_cmp_{T} for T in grid,tree,raw_vector tier=thorough loop=64 wall=1500
H(h_cmp_grid_shapes, coherence<t_grid_shapes>()) H(h_cmp_shared_alias, coherence<t_shared_alias>())
//@harness h_cmp_grid_shapes tier=quick loop=64
//@harness h_cmp_shared_alias tier=quick loop=64 leak=1
