// C17 (part 1) - typed wrappers are transparent.
// Real code: fcppt::strong_typedef with strong_typedef_{arithmetic,bitwise,assignment,comparison,hash,std_hash},
// type_iso::{decorate,undecorate} for strong typedefs, fcppt::reference (+ comparison, hash, make_ref/make_cref),
// fcppt::recursive (+ comparison, make_recursive), fcppt::unique_ptr / make_unique_ptr, fcppt::shared_ptr /
// make_shared_ptr (+ comparison, hash).
// strong_typedef<int> and strong_typedef<unsigned>: both operands are full 32-bit symbolic values and every operator is
// compared bit for bit with the same operator applied to the underlying values.  The TU is compiled with -fwrapv: for
// int the claim is "wrapped(a op b) == a op b in two's complement wrap-around arithmetic" (the wrapper and the plain
// operator have the same UB condition in ISO C++, which is not examined); for unsigned this is ISO arithmetic.
// Outside the claim: strong_typedef stream input/output, strong_typedef over floating point, weak_ptr, the atomic
// reference counting of shared_ptr under threads, unique_ptr_dynamic_cast (__dynamic_cast is not modelled).
//@property C17
//@flags -fwrapv
//@models libc_single
#include "verif_api.h"
#include <fcppt/make_cref.hpp>
#include <fcppt/make_recursive.hpp>
#include <fcppt/make_ref.hpp>
#include <fcppt/make_shared_ptr.hpp>
#include <fcppt/make_unique_ptr.hpp>
#include <fcppt/recursive.hpp>
#include <fcppt/recursive_comparison.hpp>
#include <fcppt/reference.hpp>
#include <fcppt/reference_comparison.hpp>
#include <fcppt/reference_hash.hpp>
#include <fcppt/reference_std_hash.hpp>
#include <fcppt/shared_ptr.hpp>
#include <fcppt/shared_ptr_hash_decl.hpp>
#include <fcppt/shared_ptr_hash_impl.hpp>
#include <fcppt/shared_ptr_std_hash.hpp>
#include <fcppt/strong_typedef.hpp>
#include <fcppt/strong_typedef_arithmetic.hpp>
#include <fcppt/strong_typedef_assignment.hpp>
#include <fcppt/strong_typedef_bitwise.hpp>
#include <fcppt/strong_typedef_comparison.hpp>
#include <fcppt/strong_typedef_hash.hpp>
#include <fcppt/strong_typedef_std_hash.hpp>
#include <fcppt/unique_ptr.hpp>
#include <fcppt/type_iso/decorate.hpp>
#include <fcppt/type_iso/strong_typedef.hpp>
#include <fcppt/type_iso/undecorate.hpp>
#include <fcppt/optional/object_impl.hpp>
#include <cstddef>
#include <cstdint>
#include <functional>
#include <type_traits>
#include <utility>
#include <vector>

namespace
{
struct tag_a {};
template <typename T> using st = fcppt::strong_typedef<T, tag_a>;
template <typename T> T sym(char const *const n) { return static_cast<T>(verif_u32(n)); }
template <typename T> std::uint64_t bits(T const v) { return static_cast<std::uint64_t>(static_cast<std::uint32_t>(v)); }

// ---- binary operators returning a new strong typedef
template <typename T>
void st_binary()
{
  T const a{sym<T>("a")}, b{sym<T>("b")};
  st<T> const x{a}, y{b};
  verif_out("sum", bits((x + y).get()));
  verif_assert((x + y).get() == static_cast<T>(a + b), "strong_typedef + ");
  verif_assert((x - y).get() == static_cast<T>(a - b), "strong_typedef - ");
  verif_assert((x * y).get() == static_cast<T>(a * b), "strong_typedef * ");
  verif_assert((-x).get() == static_cast<T>(-a), "strong_typedef unary -");
  verif_assert((x & y).get() == static_cast<T>(a & b), "strong_typedef &");
  verif_assert((x | y).get() == static_cast<T>(a | b), "strong_typedef |");
  verif_assert((x ^ y).get() == static_cast<T>(a ^ b), "strong_typedef ^");
  verif_assert((~x).get() == static_cast<T>(~a), "strong_typedef ~");
  verif_assert(x.get() == a && y.get() == b, "operands are unchanged");
  // comparison
  verif_assert((x < y) == (a < b), "strong_typedef <");
  verif_assert((x <= y) == (a <= b), "strong_typedef <=");
  verif_assert((x > y) == (a > b), "strong_typedef >");
  verif_assert((x >= y) == (a >= b), "strong_typedef >=");
  verif_assert((x == y) == (a == b), "strong_typedef ==");
  verif_assert((x != y) == (a != b), "strong_typedef !=");
  // hash
  verif_assert(fcppt::strong_typedef_hash<st<T>>{}(x) == std::hash<T>{}(a), "strong_typedef_hash = hash of the wrapped value");
  verif_assert(std::hash<st<T>>{}(x) == std::hash<T>{}(a), "std::hash<strong_typedef> = hash of the wrapped value");
  if (a == b) verif_assert(std::hash<st<T>>{}(x) == std::hash<st<T>>{}(y), "equal strong typedefs hash equally");
  // construction helpers and type_iso
  verif_assert(fcppt::type_iso::undecorate(x) == a, "type_iso::undecorate unwraps");
  verif_assert(fcppt::type_iso::decorate<st<T>>(a) == x, "type_iso::decorate wraps");
  verif_assert(fcppt::type_iso::undecorate(fcppt::type_iso::decorate<st<T>>(b)) == b, "undecorate . decorate = id");
  verif_reach("st_binary-end");
}

// ---- operators that modify their left operand.
// "Returns the left operand itself" is decided at RUN time and written so that it still compiles when a return type
// changes from a reference to a value: the result is bound with `auto &&r = (x op= y)` (a prvalue would be lifetime
// extended), `&r == &x` is asserted, and the operator is applied a second time THROUGH r (a chained `(x op= y) op= z`):
// with a by-value result the second application is lost and the final value of x differs from the built-in chain.
template <typename T>
void st_assign()
{
  T const a{sym<T>("a")}, b{sym<T>("b")}, c{sym<T>("c")};
  unsigned const op{verif_u8("op")};
  verif_assume(op < 10);
  st<T> x{a};
  st<T> const y{b}, z{c};
  T u{a};        // the same chain on the underlying built-in type
  T rv{0};       // value of the first expression
  T erv{0};      // its expected value
  bool same{false}, esame{true};
  switch (op)
  {
  case 0: { auto &&r = (x += y); same = (&r == &x); rv = r.get(); r += z; erv = (u += b); u += c; break; }
  case 1: { auto &&r = (x -= y); same = (&r == &x); rv = r.get(); r -= z; erv = (u -= b); u -= c; break; }
  case 2: { auto &&r = (x *= y); same = (&r == &x); rv = r.get(); r *= z; erv = (u *= b); u *= c; break; }
  case 3: { auto &&r = (x &= y); same = (&r == &x); rv = r.get(); r |= z; erv = (u &= b); u |= c; break; }
  case 4: { auto &&r = (x |= y); same = (&r == &x); rv = r.get(); r &= z; erv = (u |= b); u &= c; break; }
  case 5: { auto &&r = (x ^= y); same = (&r == &x); rv = r.get(); r ^= z; erv = (u ^= b); u ^= c; break; }
  case 6: { auto &&r = ++x; same = (&r == &x); rv = r.get(); auto &&r2 = ++r; same = same && (&r2 == &x); r2 += z; erv = ++u; ++u; u += c; break; }
  case 7: { auto &&r = --x; same = (&r == &x); rv = r.get(); auto &&r2 = --r; same = same && (&r2 == &x); r2 -= z; erv = --u; --u; u -= c; break; }
  case 8: { auto &&r = x++; same = (&r == &x); esame = false; rv = r.get(); r += z; erv = u++; break; } // postfix: a copy of the old value
  default: { auto &&r = x--; same = (&r == &x); esame = false; rv = r.get(); r -= z; erv = u--; break; }
  }
  verif_out("new", bits(x.get()));
  verif_assert(rv == erv, "value of the expression (new value; old value for postfix)");
  verif_assert(same == esame, "compound assignment and prefix forms return the left operand itself, postfix forms a copy");
  verif_assert(x.get() == u, "the chain (x op= y) op= z through the returned reference equals the built-in chain on the underlying values");
  verif_assert(y.get() == b && z.get() == c, "right operands unchanged");
  x.get() = b;
  verif_assert(x == y, "get() exposes the wrapped object for writing");
  verif_reach("st_assign-end");
}

// ---- the right operand IS the left operand
template <typename T>
void st_self()
{
  T const a{sym<T>("a")};
  unsigned const op{verif_u8("op")};
  verif_assume(op < 8);
  st<T> x{a};
  st<T> const &alias{x};
  T u{a};
  bool same{false};
  switch (op)
  {
  case 0: { auto &&r = (x = alias); same = (&r == &x); break; }
  case 1: { auto &&r = (x += alias); same = (&r == &x); u = static_cast<T>(a + a); break; }
  case 2: { auto &&r = (x -= alias); same = (&r == &x); u = static_cast<T>(a - a); break; }
  case 3: { auto &&r = (x *= alias); same = (&r == &x); u = static_cast<T>(a * a); break; }
  case 4: { auto &&r = (x &= alias); same = (&r == &x); u = static_cast<T>(a & a); break; }
  case 5: { auto &&r = (x |= alias); same = (&r == &x); u = static_cast<T>(a | a); break; }
  case 6: { auto &&r = (x ^= alias); same = (&r == &x); u = static_cast<T>(a ^ a); break; }
  default: { auto &&r1 = (x += alias); auto &&r = (r1 -= alias); same = (&r1 == &x) && (&r == &x); u = static_cast<T>(a + a - (a + a)); break; } // (x += x) -= x: the right operand has changed too
  }
  verif_out("self", bits(x.get()));
  verif_assert(x.get() == u, "x op= x equals the operation applied with a copy of x");
  verif_assert(same, "x op= x returns x itself");
  verif_assert((x + alias).get() == static_cast<T>(u + u) && (x == alias) && !(x < alias), "binary operators with both operands the same object");
  verif_reach("st_self-end");
}

// ---- reference: exposes exactly the referenced object
void ref()
{
  int arr[3]{static_cast<int>(verif_u32("v0")), static_cast<int>(verif_u32("v1")), static_cast<int>(verif_u32("v2"))};
  unsigned const i{verif_u8("i")}, j{verif_u8("j")};
  verif_assume(i < 3 && j < 3);
  fcppt::reference<int> const r{arr[i]}, q{fcppt::make_ref(arr[j])};
  fcppt::reference<int const> const c{fcppt::make_cref(arr[i])};
  verif_assert(&r.get() == &arr[i] && &c.get() == &arr[i] && r.operator->() == &arr[i], "reference::get returns the referenced object");
  verif_assert(r.get() == arr[i], "reference reads the referenced value");
  int const nv{static_cast<int>(verif_u32("nv"))};
  r.get() = nv;
  verif_assert(arr[i] == nv && c.get() == nv, "writes through a reference reach the object");
  fcppt::reference<int> const copy{r};
  verif_assert(&copy.get() == &r.get(), "a copy refers to the same object");
  verif_assert((r == q) == (i == j), "references are equal iff they refer to the same object");
  verif_assert((r != q) == (i != j), "reference != is the negation");
  verif_assert((r < q) == (i < j), "reference < orders by address (elements of one array: by index)");
  verif_assert(!(r < r), "reference < is irreflexive");
  if (i == j) verif_assert(fcppt::reference_hash<fcppt::reference<int>>{}(r) == fcppt::reference_hash<fcppt::reference<int>>{}(q) && std::hash<fcppt::reference<int>>{}(r) == std::hash<fcppt::reference<int>>{}(q), "equal references hash equally");
  verif_reach("ref-end");
}

// ---- recursive: owns a copy of the wrapped value
void rec()
{
  int const a{static_cast<int>(verif_u32("a"))}, b{static_cast<int>(verif_u32("b"))}, n{static_cast<int>(verif_u32("n"))};
  fcppt::recursive<int> x{a};
  fcppt::recursive<int> const y{fcppt::make_recursive(b)};
  verif_assert(x.get() == a && y.get() == b, "recursive::get returns the wrapped value");
  verif_assert((x == y) == (a == b), "recursive == compares the wrapped values");
  verif_assert((x != y) == (a != b), "recursive != is the negation");
  fcppt::recursive<int> z{x};
  verif_assert(z == x && &z.get() != &x.get(), "a copy is equal and owns its own object");
  z.get() = n;
  verif_assert(x.get() == a && z.get() == n, "modifying a copy leaves the original unchanged");
  {
    auto &&r = (x = y);
    verif_assert(&r == &x, "recursive copy assignment returns the target itself");
  }
  verif_assert(x.get() == b && y.get() == b && &x.get() != &y.get(), "copy assignment copies the value");
  fcppt::recursive<int> m{std::move(z)};
  verif_assert(m.get() == n, "move construction transfers the value");
  {
    auto &&r = (x = std::move(m));
    verif_assert(&r == &x, "recursive move assignment returns the target itself");
  }
  verif_assert(x.get() == n, "move assignment transfers the value");
  verif_reach("rec-end");
}

// ---- unique_ptr / shared_ptr: expose exactly the owned object
void ptrs()
{
  int const a{static_cast<int>(verif_u32("a"))}, n{static_cast<int>(verif_u32("n"))};
  fcppt::unique_ptr<int> u{fcppt::make_unique_ptr<int>(a)};
  verif_assert(*u == a && u.get_pointer() == &*u, "unique_ptr exposes the owned object");
  *u = n;
  fcppt::unique_ptr<int> v{std::move(u)};
  verif_assert(*v == n, "moving a unique_ptr transfers the object");
  int *const raw{v.release_ownership()};
  verif_assert(*raw == n, "release_ownership hands out the object");
  delete raw;
  fcppt::shared_ptr<int> const s{fcppt::make_shared_ptr<int>(a)};
  fcppt::shared_ptr<int> const t{s};
  fcppt::shared_ptr<int> const w{fcppt::make_shared_ptr<int>(a)};
  verif_assert(*s == a && s.get_pointer() == &*s && s.operator->() == &*s, "shared_ptr exposes the owned object");
  verif_assert(t.get_pointer() == s.get_pointer() && s.use_count() == 2, "copies share the object");
  *t = n;
  verif_assert(*s == n, "writes through a copy reach the shared object");
  verif_assert(s == t && !(s != t) && !(s < t) && !(t < s), "copies compare equal (address identity)");
  verif_assert(s != w && !(s == w) && ((s < w) != (w < s)), "distinct objects with equal values are unequal and ordered one way");
  verif_assert(fcppt::shared_ptr_hash<fcppt::shared_ptr<int>>{}(s) == fcppt::shared_ptr_hash<fcppt::shared_ptr<int>>{}(t) && std::hash<fcppt::shared_ptr<int>>{}(s) == std::hash<fcppt::shared_ptr<int>>{}(t), "equal shared_ptrs hash equally");
  verif_reach("ptrs-end");
}

// ---- assignment from a source that lives INSIDE the object the target currently owns
// node: a value and a vector of recursive<node> (the use case of fcppt::recursive).  The tree
//   v0 { v1 { v3, v4 { v6 } }, v2 { v5, v7 } }
// is wrapped in a recursive<node>; the source of the assignment is one of its own sub-objects (or the target is a
// sub-object of the source).  Afterwards the wrapper must expose a deep copy of the former sub-object: its pre-order
// flattening (value, number of children, children...) is compared with the flattening taken BEFORE the assignment.
// An implementation that assigns in place into the existing allocation destroys the source while reading it
// (use after free / wrong values); leak=1 also demands that every old node is released exactly once.
struct node
{
  int value;
  std::vector<fcppt::recursive<node>> children;
};
node leaf(int const v) { return node{v, {}}; }
void add(node &parent, node child) { parent.children.push_back(fcppt::recursive<node>{std::move(child)}); }
constexpr unsigned flat_max{32};
struct flat { int f[flat_max]; unsigned n; };
void flatten(node const &nd, flat &out)
{
  if (out.n + 2 > flat_max) return;
  out.f[out.n++] = nd.value;
  out.f[out.n++] = static_cast<int>(nd.children.size());
  for (fcppt::recursive<node> const &c : nd.children) flatten(c.get(), out);
}
void same_flat(flat const &a, flat const &b, char const *const what)
{
  verif_assert(a.n == b.n, what);
  for (unsigned i = 0; i < a.n && i < b.n; ++i) verif_assert(a.f[i] == b.f[i], what);
}

void rec_alias()
{
  int v[8];
  for (int &x : v) x = static_cast<int>(verif_u32("v"));
  unsigned const op{static_cast<unsigned>(verif_param("op"))};
  node root{leaf(v[0])};
  {
    node c0{leaf(v[1])}, c1{leaf(v[2])}, g1{leaf(v[4])};
    add(g1, leaf(v[6]));
    add(c0, leaf(v[3]));
    add(c0, std::move(g1));
    add(c1, leaf(v[5]));
    add(c1, leaf(v[7]));
    add(root, std::move(c0));
    add(root, std::move(c1));
  }
  if (op == 7)
  {
    // a wider tree for the middle-child case:  v0 { v1 {v3}, v2 { v4, v5 {v7}, v6 }, v3 }
    root = leaf(v[0]);
    node a{leaf(v[1])}, m{leaf(v[2])}, m1{leaf(v[5])};
    add(a, leaf(v[3]));
    add(m1, leaf(v[7]));
    add(m, leaf(v[4]));
    add(m, std::move(m1));
    add(m, leaf(v[6]));
    add(root, std::move(a));
    add(root, std::move(m));
    add(root, leaf(v[3]));
  }
  fcppt::recursive<node> tree{std::move(root)};
  flat expected{{}, 0}, got{{}, 0};
  bool same{false};
  switch (op)
  {
  case 7: // middle one of three children, itself having three children
  {
    fcppt::recursive<node> const &src{tree.get().children[1]};
    flatten(src.get(), expected);
    auto &&r = (tree = src);
    same = (&r == &tree);
    break;
  }
  case 0: // first child (which has two children of its own)
  {
    fcppt::recursive<node> const &src{tree.get().children.front()};
    flatten(src.get(), expected);
    auto &&r = (tree = src);
    same = (&r == &tree);
    break;
  }
  case 1: // last child
  {
    fcppt::recursive<node> const &src{tree.get().children.back()};
    flatten(src.get(), expected);
    auto &&r = (tree = src);
    same = (&r == &tree);
    break;
  }
  case 2: // grandchild with a child of its own
  {
    fcppt::recursive<node> const &src{tree.get().children.front().get().children.back()};
    flatten(src.get(), expected);
    auto &&r = (tree = src);
    same = (&r == &tree);
    break;
  }
  case 3: // self assignment
  {
    fcppt::recursive<node> const &src{tree};
    flatten(src.get(), expected);
    auto &&r = (tree = src);
    same = (&r == &tree);
    break;
  }
  case 4: // move assignment from the first child
  {
    fcppt::recursive<node> &src{tree.get().children.front()};
    flatten(src.get(), expected);
    auto &&r = (tree = std::move(src));
    same = (&r == &tree);
    break;
  }
  case 5: // move assignment from a grandchild
  {
    fcppt::recursive<node> &src{tree.get().children.front().get().children.back()};
    flatten(src.get(), expected);
    auto &&r = (tree = std::move(src));
    same = (&r == &tree);
    break;
  }
  default: // the TARGET is a sub-object of the source: first child := whole tree
  {
    fcppt::recursive<node> &dst{tree.get().children.front()};
    flat whole{{}, 0}, last{{}, 0};
    flatten(tree.get(), whole);
    flatten(tree.get().children.back().get(), last);
    auto &&r = (dst = tree);
    same = (&r == &tree.get().children.front());
    // expected: v0, 2, <old whole tree>, <old last child>
    expected.f[expected.n++] = v[0];
    expected.f[expected.n++] = 2;
    for (unsigned i = 0; i < whole.n; ++i) expected.f[expected.n++] = whole.f[i];
    for (unsigned i = 0; i < last.n; ++i) expected.f[expected.n++] = last.f[i];
    break;
  }
  }
  flatten(tree.get(), got);
  verif_out("nodes", got.n);
  verif_out("root", static_cast<std::uint32_t>(tree.get().value));
  same_flat(got, expected, "after assigning from its own sub-object the wrapper exposes a deep copy of the former sub-object");
  verif_assert(same, "recursive assignment returns the target itself");
  // the result is independent of anything that was freed: modify and re-read
  tree.get().value = 1;
  verif_assert(tree.get().value == 1, "the wrapped object is writable after the assignment");
  verif_reach("rec_alias-end");
}

// unique_ptr / shared_ptr: a singly linked list  n0 -> n1 -> n2 ; head is (re)assigned from the link stored in the node
// it owns.  fcppt::unique_ptr / shared_ptr are never null, the link is an optional.
struct unode
{
  int value;
  fcppt::optional::object<fcppt::unique_ptr<unode>> next;
};
struct snode
{
  int value;
  fcppt::optional::object<fcppt::shared_ptr<snode>> next;
};

void uptr_alias()
{
  int const a{static_cast<int>(verif_u32("a"))}, b{static_cast<int>(verif_u32("b"))}, c{static_cast<int>(verif_u32("c"))};
  using link = fcppt::optional::object<fcppt::unique_ptr<unode>>;
  fcppt::unique_ptr<unode> head{fcppt::make_unique_ptr<unode>(unode{a, link{fcppt::make_unique_ptr<unode>(unode{b, link{fcppt::make_unique_ptr<unode>(unode{c, link{}})}})}})};
  verif_assert(head->value == a && head->next.get_unsafe()->value == b, "list built");
  unode *const second{head->next.get_unsafe().get_pointer()};
  {
    auto &&r = (head = std::move(head->next.get_unsafe())); // the source is a member of the object head owns
    verif_assert(&r == &head, "unique_ptr move assignment returns the target itself");
  }
  verif_assert(head.get_pointer() == second, "after head = move(head->next) head owns the former second node (not a copy)");
  verif_assert(head->value == b && head->next.has_value() && head->next.get_unsafe()->value == c && !head->next.get_unsafe()->next.has_value(), "the rest of the list is intact");
  {
    auto &&r = (head = std::move(head->next.get_unsafe()));
    verif_assert(&r == &head, "unique_ptr move assignment returns the target itself (second step)");
  }
  verif_assert(head->value == c && !head->next.has_value(), "second step reaches the last node");
  verif_reach("uptr_alias-end");
}

void sptr_alias()
{
  int const a{static_cast<int>(verif_u32("a"))}, b{static_cast<int>(verif_u32("b"))}, c{static_cast<int>(verif_u32("c"))};
  unsigned const op{static_cast<unsigned>(verif_param("op"))};
  using link = fcppt::optional::object<fcppt::shared_ptr<snode>>;
  fcppt::shared_ptr<snode> head{fcppt::make_shared_ptr<snode>(snode{a, link{fcppt::make_shared_ptr<snode>(snode{b, link{fcppt::make_shared_ptr<snode>(snode{c, link{}})}})}})};
  snode *const first{head.get_pointer()};
  snode *const second{head->next.get_unsafe().get_pointer()};
  bool same{false};
  switch (op)
  {
  case 0: // copy assignment from the link inside the owned node
  {
    auto &&r = (head = head->next.get_unsafe());
    same = (&r == &head);
    verif_assert(head.get_pointer() == second && head.use_count() == 1, "head = head->next: head shares the second node, the first node (and its link) is released");
    break;
  }
  case 1: // move assignment from the link inside the owned node
  {
    auto &&r = (head = std::move(head->next.get_unsafe()));
    same = (&r == &head);
    verif_assert(head.get_pointer() == second && head.use_count() == 1, "head = move(head->next): head owns the second node");
    break;
  }
  case 2: // self assignment
  {
    fcppt::shared_ptr<snode> const &alias{head};
    auto &&r = (head = alias);
    same = (&r == &head);
    verif_assert(head.get_pointer() == first && head.use_count() == 1 && head->value == a, "self assignment keeps the object and the count");
    break;
  }
  default: // a cycle-free re-link: the second node's link := head's copy of the third, through the owner chain
  {
    fcppt::shared_ptr<snode> third{head->next.get_unsafe()->next.get_unsafe()};
    auto &&r = (head->next.get_unsafe() = third); // drops the second node while assigning into the first one's link
    same = (&r == &head->next.get_unsafe());
    verif_assert(head.get_pointer() == first && head->next.get_unsafe().get_pointer() == third.get_pointer() && third.use_count() == 2, "re-linking past a node releases exactly that node");
    verif_assert(head->next.get_unsafe()->value == c, "the third node is intact");
    break;
  }
  }
  verif_assert(same, "shared_ptr assignment returns the target itself");
  if (op <= 1) verif_assert(head->value == b && head->next.has_value() && head->next.get_unsafe()->value == c && head->next.get_unsafe().use_count() == 1, "the rest of the list is intact");
  verif_reach("sptr_alias-end");
}
}

#define H(name, ...) VERIF_HARNESS(name) { __VA_ARGS__; }
H(h_st_binary_int, st_binary<int>()) H(h_st_binary_uint, st_binary<unsigned>()) H(h_st_assign_int, st_assign<int>()) H(h_st_assign_uint, st_assign<unsigned>())
H(h_ref, ref()) H(h_rec, rec()) H(h_ptrs, ptrs())
H(h_st_self_int, st_self<int>()) H(h_st_self_uint, st_self<unsigned>()) H(h_rec_alias, rec_alias()) H(h_uptr_alias, uptr_alias()) H(h_sptr_alias, sptr_alias())
//@harness h_st_self_{T} for T in int,uint tier=quick
//@harness h_rec_alias param op=0..7 tier=quick loop=200 leak=1
//@harness h_uptr_alias tier=quick leak=1
//@harness h_sptr_alias param op=0..3 tier=quick leak=1
//@harness h_st_binary_{T} for T in int,uint tier=quick
//@harness h_st_assign_{T} for T in int,uint tier=quick
//@harness h_ref tier=quick
//@harness h_rec tier=quick leak=1
//@harness h_ptrs tier=quick leak=1
