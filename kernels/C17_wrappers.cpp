// C17 (part 1) - typed wrappers are transparent.
// Real code: fcppt::strong_typedef with strong_typedef_{arithmetic,bitwise,assignment,comparison,hash,std_hash},
// type_iso::{decorate,undecorate} for strong typedefs, fcppt::reference (+ comparison, hash, make_ref/make_cref),
// fcppt::recursive (+ comparison, make_recursive), fcppt::unique_ptr / make_unique_ptr, fcppt::shared_ptr /
// make_shared_ptr (+ comparison, hash).
// strong_typedef<int> and strong_typedef<unsigned>: both operands are full 32-bit symbolic values and every operator is
// compared bit for bit with the same operator applied to the underlying values.  The TU is compiled with -fwrapv: for
// int the claim is "wrapped(a op b) == a op b in two's complement wrap-around arithmetic" (the wrapper and the plain
// operator have the same UB condition in ISO C++, which is not examined); for unsigned this is ISO arithmetic.
// Outside the claim: strong_typedef stream input/output, strong_typedef over floating point, weak_ptr, the atomic
// reference counting of shared_ptr under threads, unique_ptr_dynamic_cast (__dynamic_cast is not modelled).
//@property C17
//@flags -fwrapv
//@models libc_single
#include "verif_api.h"
#include <fcppt/make_cref.hpp>
#include <fcppt/make_recursive.hpp>
#include <fcppt/make_ref.hpp>
#include <fcppt/make_shared_ptr.hpp>
#include <fcppt/make_unique_ptr.hpp>
#include <fcppt/recursive.hpp>
#include <fcppt/recursive_comparison.hpp>
#include <fcppt/reference.hpp>
#include <fcppt/reference_comparison.hpp>
#include <fcppt/reference_hash.hpp>
#include <fcppt/reference_std_hash.hpp>
#include <fcppt/shared_ptr.hpp>
#include <fcppt/shared_ptr_hash_decl.hpp>
#include <fcppt/shared_ptr_hash_impl.hpp>
#include <fcppt/shared_ptr_std_hash.hpp>
#include <fcppt/strong_typedef.hpp>
#include <fcppt/strong_typedef_arithmetic.hpp>
#include <fcppt/strong_typedef_assignment.hpp>
#include <fcppt/strong_typedef_bitwise.hpp>
#include <fcppt/strong_typedef_comparison.hpp>
#include <fcppt/strong_typedef_hash.hpp>
#include <fcppt/strong_typedef_std_hash.hpp>
#include <fcppt/unique_ptr.hpp>
#include <fcppt/type_iso/decorate.hpp>
#include <fcppt/type_iso/strong_typedef.hpp>
#include <fcppt/type_iso/undecorate.hpp>
#include <cstddef>
#include <cstdint>
#include <functional>
#include <type_traits>
#include <utility>

namespace
{
struct tag_a {};
template <typename T> using st = fcppt::strong_typedef<T, tag_a>;
template <typename T> T sym(char const *const n) { return static_cast<T>(verif_u32(n)); }
template <typename T> std::uint64_t bits(T const v) { return static_cast<std::uint64_t>(static_cast<std::uint32_t>(v)); }

// ---- binary operators returning a new strong typedef
template <typename T>
void st_binary()
{
  T const a{sym<T>("a")}, b{sym<T>("b")};
  st<T> const x{a}, y{b};
  verif_out("sum", bits((x + y).get()));
  verif_assert((x + y).get() == static_cast<T>(a + b), "strong_typedef + ");
  verif_assert((x - y).get() == static_cast<T>(a - b), "strong_typedef - ");
  verif_assert((x * y).get() == static_cast<T>(a * b), "strong_typedef * ");
  verif_assert((-x).get() == static_cast<T>(-a), "strong_typedef unary -");
  verif_assert((x & y).get() == static_cast<T>(a & b), "strong_typedef &");
  verif_assert((x | y).get() == static_cast<T>(a | b), "strong_typedef |");
  verif_assert((x ^ y).get() == static_cast<T>(a ^ b), "strong_typedef ^");
  verif_assert((~x).get() == static_cast<T>(~a), "strong_typedef ~");
  verif_assert(x.get() == a && y.get() == b, "operands are unchanged");
  static_assert(std::is_same_v<decltype(x + y), st<T>> && std::is_same_v<decltype(~x), st<T>>, "operators stay in the strong typedef");
  // comparison
  verif_assert((x < y) == (a < b), "strong_typedef <");
  verif_assert((x <= y) == (a <= b), "strong_typedef <=");
  verif_assert((x > y) == (a > b), "strong_typedef >");
  verif_assert((x >= y) == (a >= b), "strong_typedef >=");
  verif_assert((x == y) == (a == b), "strong_typedef ==");
  verif_assert((x != y) == (a != b), "strong_typedef !=");
  // hash
  verif_assert(fcppt::strong_typedef_hash<st<T>>{}(x) == std::hash<T>{}(a), "strong_typedef_hash = hash of the wrapped value");
  verif_assert(std::hash<st<T>>{}(x) == std::hash<T>{}(a), "std::hash<strong_typedef> = hash of the wrapped value");
  if (a == b) verif_assert(std::hash<st<T>>{}(x) == std::hash<st<T>>{}(y), "equal strong typedefs hash equally");
  // construction helpers and type_iso
  verif_assert(fcppt::type_iso::undecorate(x) == a, "type_iso::undecorate unwraps");
  verif_assert(fcppt::type_iso::decorate<st<T>>(a) == x, "type_iso::decorate wraps");
  verif_assert(fcppt::type_iso::undecorate(fcppt::type_iso::decorate<st<T>>(b)) == b, "undecorate . decorate = id");
  verif_reach("st_binary-end");
}

// ---- operators that modify their left operand
template <typename T>
void st_assign()
{
  T const a{sym<T>("a")}, b{sym<T>("b")};
  unsigned const op{verif_u8("op")};
  verif_assume(op < 10);
  st<T> x{a};
  st<T> const y{b};
  T e{a};        // expected new value of x
  T r{0};        // expected value of the expression
  bool same_object{true};
  st<T> *res{nullptr};
  st<T> tmp{T{0}};
  switch (op)
  {
  case 0: res = &(x += y); e = static_cast<T>(a + b); r = e; break;
  case 1: res = &(x -= y); e = static_cast<T>(a - b); r = e; break;
  case 2: res = &(x *= y); e = static_cast<T>(a * b); r = e; break;
  case 3: res = &(x &= y); e = static_cast<T>(a & b); r = e; break;
  case 4: res = &(x |= y); e = static_cast<T>(a | b); r = e; break;
  case 5: res = &(x ^= y); e = static_cast<T>(a ^ b); r = e; break;
  case 6: res = &(++x); e = static_cast<T>(a + 1); r = e; break;
  case 7: res = &(--x); e = static_cast<T>(a - 1); r = e; break;
  case 8: tmp = x++; res = &tmp; e = static_cast<T>(a + 1); r = a; same_object = false; break;
  default: tmp = x--; res = &tmp; e = static_cast<T>(a - 1); r = a; same_object = false; break;
  }
  verif_out("new", bits(x.get()));
  verif_assert(x.get() == e, "compound assignment / increment stores wrapped(op on the underlying values)");
  verif_assert(res->get() == r, "value of the expression (new value; old value for postfix)");
  verif_assert((res == &x) == same_object, "compound assignment and prefix forms return the left operand itself");
  verif_assert(y.get() == b, "right operand unchanged");
  x.get() = b;
  verif_assert(x == y, "get() exposes the wrapped object for writing");
  verif_reach("st_assign-end");
}

// ---- reference: exposes exactly the referenced object
void ref()
{
  int arr[3]{static_cast<int>(verif_u32("v0")), static_cast<int>(verif_u32("v1")), static_cast<int>(verif_u32("v2"))};
  unsigned const i{verif_u8("i")}, j{verif_u8("j")};
  verif_assume(i < 3 && j < 3);
  fcppt::reference<int> const r{arr[i]}, q{fcppt::make_ref(arr[j])};
  fcppt::reference<int const> const c{fcppt::make_cref(arr[i])};
  verif_assert(&r.get() == &arr[i] && &c.get() == &arr[i] && r.operator->() == &arr[i], "reference::get returns the referenced object");
  verif_assert(r.get() == arr[i], "reference reads the referenced value");
  int const nv{static_cast<int>(verif_u32("nv"))};
  r.get() = nv;
  verif_assert(arr[i] == nv && c.get() == nv, "writes through a reference reach the object");
  fcppt::reference<int> const copy{r};
  verif_assert(&copy.get() == &r.get(), "a copy refers to the same object");
  verif_assert((r == q) == (i == j), "references are equal iff they refer to the same object");
  verif_assert((r != q) == (i != j), "reference != is the negation");
  verif_assert((r < q) == (i < j), "reference < orders by address (elements of one array: by index)");
  verif_assert(!(r < r), "reference < is irreflexive");
  if (i == j) verif_assert(fcppt::reference_hash<fcppt::reference<int>>{}(r) == fcppt::reference_hash<fcppt::reference<int>>{}(q) && std::hash<fcppt::reference<int>>{}(r) == std::hash<fcppt::reference<int>>{}(q), "equal references hash equally");
  verif_reach("ref-end");
}

// ---- recursive: owns a copy of the wrapped value
void rec()
{
  int const a{static_cast<int>(verif_u32("a"))}, b{static_cast<int>(verif_u32("b"))}, n{static_cast<int>(verif_u32("n"))};
  fcppt::recursive<int> x{a};
  fcppt::recursive<int> const y{fcppt::make_recursive(b)};
  verif_assert(x.get() == a && y.get() == b, "recursive::get returns the wrapped value");
  verif_assert((x == y) == (a == b), "recursive == compares the wrapped values");
  verif_assert((x != y) == (a != b), "recursive != is the negation");
  fcppt::recursive<int> z{x};
  verif_assert(z == x && &z.get() != &x.get(), "a copy is equal and owns its own object");
  z.get() = n;
  verif_assert(x.get() == a && z.get() == n, "modifying a copy leaves the original unchanged");
  x = y;
  verif_assert(x.get() == b && y.get() == b && &x.get() != &y.get(), "copy assignment copies the value");
  fcppt::recursive<int> m{std::move(z)};
  verif_assert(m.get() == n, "move construction transfers the value");
  x = std::move(m);
  verif_assert(x.get() == n, "move assignment transfers the value");
  verif_reach("rec-end");
}

// ---- unique_ptr / shared_ptr: expose exactly the owned object
void ptrs()
{
  int const a{static_cast<int>(verif_u32("a"))}, n{static_cast<int>(verif_u32("n"))};
  fcppt::unique_ptr<int> u{fcppt::make_unique_ptr<int>(a)};
  verif_assert(*u == a && u.get_pointer() == &*u, "unique_ptr exposes the owned object");
  *u = n;
  fcppt::unique_ptr<int> v{std::move(u)};
  verif_assert(*v == n, "moving a unique_ptr transfers the object");
  int *const raw{v.release_ownership()};
  verif_assert(*raw == n, "release_ownership hands out the object");
  delete raw;
  fcppt::shared_ptr<int> const s{fcppt::make_shared_ptr<int>(a)};
  fcppt::shared_ptr<int> const t{s};
  fcppt::shared_ptr<int> const w{fcppt::make_shared_ptr<int>(a)};
  verif_assert(*s == a && s.get_pointer() == &*s && s.operator->() == &*s, "shared_ptr exposes the owned object");
  verif_assert(t.get_pointer() == s.get_pointer() && s.use_count() == 2, "copies share the object");
  *t = n;
  verif_assert(*s == n, "writes through a copy reach the shared object");
  verif_assert(s == t && !(s != t) && !(s < t) && !(t < s), "copies compare equal (address identity)");
  verif_assert(s != w && !(s == w) && ((s < w) != (w < s)), "distinct objects with equal values are unequal and ordered one way");
  verif_assert(fcppt::shared_ptr_hash<fcppt::shared_ptr<int>>{}(s) == fcppt::shared_ptr_hash<fcppt::shared_ptr<int>>{}(t) && std::hash<fcppt::shared_ptr<int>>{}(s) == std::hash<fcppt::shared_ptr<int>>{}(t), "equal shared_ptrs hash equally");
  verif_reach("ptrs-end");
}
}

#define H(name, ...) VERIF_HARNESS(name) { __VA_ARGS__; }
H(h_st_binary_int, st_binary<int>()) H(h_st_binary_uint, st_binary<unsigned>()) H(h_st_assign_int, st_assign<int>()) H(h_st_assign_uint, st_assign<unsigned>())
H(h_ref, ref()) H(h_rec, rec()) H(h_ptrs, ptrs())
//@harness h_st_binary_{T} for T in int,uint tier=quick
//@harness h_st_assign_{T} for T in int,uint tier=quick
//@harness h_ref tier=quick
//@harness h_rec tier=quick leak=1
//@harness h_ptrs tier=quick leak=1
