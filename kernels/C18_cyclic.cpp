// C18 (part 2) - cyclic_iterator: "advanced by n equals |n| single steps forward or backward and always stays inside its
// boundary".
//
// fcppt::cyclic_iterator<int const *> (and std::vector<int>::const_iterator) over a boundary [first, first+L), L = 1..6 a
// `param`; the start offset s in [0,L) and the step count n are symbolic.  n is given by its floor quotient and remainder
// with respect to L:  n = q*L + r, 0 <= r < L, |q| <= 2^59, both symbolic - every n in [-2^59*L, 2^59*L + L) has exactly one
// such representation, so this is all n in that interval (far beyond the property's [-20,20]) and the reference needs no
// division:  (s+n) mod L = s+r reduced once.
// One step forward from offset p is (p+1) mod L, one step backward is (p-1) mod L (documentation: "end() becomes begin()
// again"); so |n| single steps from s land at the mathematical (s+n) mod L.  Checked:
//   * ++ / -- / post-forms land on the neighbouring offset with wrap-around, stay inside [first, second), keep the boundary,
//   * advance(n) (+=, +, -=, -, []) lands at (s+n) mod L, inside the boundary,
//   * the inductive form asked for by the plan: advance(n+1) == increment(advance(n)), advance(n-1) == decrement(advance(n)),
//     advance(0) == identity - which by induction on |n| is exactly "advance(n) = |n| single steps",
//   * a real loop of k <= 7 increments / decrements (k symbolic) compared with one advance(+-k),
//   * dereference yields the element at the current offset; equality compares the position.
//
// outside the claim: boundaries of length 0 (advance divides by the length: division by zero; the property quantifies over
// lengths 1..6 and the documentation requires a range to cycle through); n within 6 of PTRDIFF_MAX / n = PTRDIFF_MIN for -=;
// distance_to / operator-(iterator) (plain distance of the underlying iterators, not part of the statement).
//@property C18
#include "verif_api.h"
#include <fcppt/cyclic_iterator.hpp>
#include <fcppt/tuple/get.hpp>
#include <cstddef>
#include <cstdint>
#include <vector>

namespace
{
using i64 = std::int64_t;
using u64 = std::uint64_t;
int const data[8] = {100, 101, 102, 103, 104, 105, 106, 107};

template <typename It> struct src;
template <> struct src<int const *>
{
  int const *first() const { return data + 1; } // not at the start of the object: "inside the boundary" is not "inside the array"
};
template <> struct src<std::vector<int>::const_iterator>
{
  std::vector<int> v{data, data + 8};
  std::vector<int>::const_iterator first() const { return v.cbegin() + 1; }
};

template <typename It> struct env
{
  using cyc = fcppt::cyclic_iterator<It>;
  i64 L;
  src<It> source{};
  It first, second;
  i64 s;
  env() : L{static_cast<i64>(verif_param("L"))}, first{source.first()}, second{first + L}, s{static_cast<i64>(verif_u64("s"))}
  {
    verif_assume(s >= 0 && s < L);
  }
  cyc start() const { return cyc{first + s, typename cyc::boundary{first, second}}; }
  i64 off(cyc const &c) const { return static_cast<i64>(c.get() - first); }
  bool same_boundary(cyc const &c) const { return fcppt::tuple::get<0>(c.get_boundary()) == first && fcppt::tuple::get<1>(c.get_boundary()) == second; }
  i64 wrap(i64 const x) const { return x >= L ? x - L : x < 0 ? x + L : x; } // one reduction: for x in [-L, 2L)
};
struct steps
{
  i64 n, r;
  explicit steps(i64 const L) : n{0}, r{static_cast<i64>(verif_u64("r"))}
  {
    i64 const q{static_cast<i64>(verif_u64("q"))};
    verif_assume(r >= 0 && r < L && q >= -(i64{1} << 59) && q <= (i64{1} << 59));
    n = q * L + r;
  }
};

// single steps
template <typename It> void cyclic_step()
{
  env<It> const e{};
  using cyc = typename env<It>::cyc;
  cyc const start{e.start()};
  verif_assert(e.off(start) == e.s && e.same_boundary(start), "constructor: position and boundary");
  cyc inc{start};
  ++inc;
  verif_assert(e.off(inc) == (e.s + 1 == e.L ? 0 : e.s + 1), "++ moves one forward, the end becomes the beginning again");
  verif_assert(e.off(inc) >= 0 && e.off(inc) < e.L && e.same_boundary(inc), "++ stays inside the boundary");
  cyc dec{start};
  --dec;
  verif_assert(e.off(dec) == (e.s == 0 ? e.L - 1 : e.s - 1), "-- moves one backward, before the beginning is the last element");
  verif_assert(e.off(dec) >= 0 && e.off(dec) < e.L && e.same_boundary(dec), "-- stays inside the boundary");
  cyc a{start}, b{start};
  cyc const a0{a++}, b0{b--};
  verif_assert(a0 == start && b0 == start && a == inc && b == dec, "post-increment / post-decrement");
  cyc back{inc};
  --back;
  cyc forth{dec};
  ++forth;
  verif_assert(back == start && forth == start, "-- undoes ++ and ++ undoes --");
  cyc zero{start};
  zero += 0;
  verif_assert(zero == start && e.off(zero) == e.s, "advance(0) is the identity");
  verif_out("value", static_cast<u64>(*start));
  verif_assert(*start == 101 + e.s, "dereference yields the element at the position");
  verif_reach("end");
}

// advance(n): position, boundary, all operator forms, inductive characterisation.  The five groups of statements are
// selected by the concrete `part` parameter only to keep the number of paths per run small (the branches of the single
// steps would otherwise multiply).
template <typename It> void cyclic_advance()
{
  env<It> const e{};
  using cyc = typename env<It>::cyc;
  steps const st{e.L};
  i64 const n{st.n};
  unsigned const part{static_cast<unsigned>(verif_param("part"))};
  cyc const start{e.start()};
  cyc adv{start};
  adv += n;
  i64 const pos{e.off(adv)};
  verif_out("pos", static_cast<u64>(pos));
  if (part == 0)
  {
    verif_assert(pos >= 0 && pos < e.L, "advance(n) stays inside the boundary");
    verif_assert(e.same_boundary(adv), "advance(n) keeps the boundary");
    verif_assert(pos == e.wrap(e.s + st.r), "advance(n) lands where |n| single steps land: (s+n) mod L");
  }
  else if (part == 1)
  {
    verif_assert(e.off(start + n) == pos, "operator+ agrees with +=");
    verif_assert(e.off(n + start) == pos, "n + it agrees with +=");
    verif_assert(e.off(start - (-n)) == pos, "operator-(-n) agrees with +=");
    cyc m{start};
    m -= n;
    verif_assert(e.off(m) == e.wrap(e.s - st.r), "-= n is n steps backward: (s-n) mod L");
  }
  else if (part == 2)
  {
    cyc adv1{start};
    adv1 += n + 1;
    cyc step{adv};
    ++step;
    verif_assert(e.off(adv1) == e.off(step), "advance(n+1) == increment(advance(n))");
  }
  else if (part == 3)
  {
    cyc advm{start};
    advm += n - 1;
    cyc stepm{adv};
    --stepm;
    verif_assert(e.off(advm) == e.off(stepm), "advance(n-1) == decrement(advance(n))");
  }
  else
  {
    cyc twice{adv};
    twice += n;
    verif_assert(e.off(twice) == e.wrap(e.wrap(e.s + st.r) + st.r), "advance(n) twice = advance(2n)");
  }
  verif_reach("end");
}

// dereference after advance, operator[]
template <typename It> void cyclic_deref()
{
  env<It> const e{};
  using cyc = typename env<It>::cyc;
  steps const st{e.L};
  cyc const start{e.start()};
  int const v{start[st.n]};
  verif_out("v", static_cast<u64>(v));
  verif_assert(v == 101 + e.wrap(e.s + st.r), "operator[](n) yields the element |n| single steps away");
  verif_assert(*(start + st.n) == v, "*(it + n)");
  verif_reach("end");
}

// k real single steps against one advance
void cyclic_loop()
{
  using cyc = fcppt::cyclic_iterator<int const *>;
  i64 const L{static_cast<i64>(verif_param("L"))};
  int const *const first{data + 1};
  i64 const s{static_cast<i64>(verif_u64("s"))};
  unsigned const k{verif_u8("k")};
  verif_assume(s >= 0 && s < L && k <= 7);
  cyc const start{first + s, cyc::boundary{first, first + L}};
  cyc f{start}, b{start};
  for (unsigned i = 0; i < k; ++i)
  {
    ++f;
    --b;
    verif_assert(f.get() >= first && f.get() < first + L && b.get() >= first && b.get() < first + L, "every single step stays inside the boundary");
  }
  verif_out("f", static_cast<u64>(f.get() - first));
  verif_out("b", static_cast<u64>(b.get() - first));
  verif_assert(f == start + static_cast<i64>(k), "k increments == advance(k)");
  verif_assert(b == start - static_cast<i64>(k), "k decrements == advance(-k)");
  verif_assert(b == start + (-static_cast<i64>(k)), "k decrements == advance(-k) (+=)");
  verif_reach("end");
}
}

#define H(name, ...) VERIF_HARNESS(name) { __VA_ARGS__; }
using vec_it = std::vector<int>::const_iterator;
H(h_cyclic_step_ptr, cyclic_step<int const *>()) H(h_cyclic_step_vec, cyclic_step<vec_it>())
H(h_cyclic_advance_ptr, cyclic_advance<int const *>()) H(h_cyclic_advance_vec, cyclic_advance<vec_it>())
H(h_cyclic_deref_ptr, cyclic_deref<int const *>()) H(h_cyclic_deref_vec, cyclic_deref<vec_it>())
//@harness h_cyclic_step_{I} for I in ptr,vec param L=1..6 tier=quick loop=16 hang_s=60
//@harness h_cyclic_advance_ptr param L=1..6 param part=0..4 tier=quick loop=16 hang_s=60
//@harness h_cyclic_advance_vec param L=1,3,6 param part=0..4 tier=quick loop=16 hang_s=60
//@harness h_cyclic_advance_vec param L=2,4,5 param part=0..4 tier=thorough loop=16 hang_s=60
//@harness h_cyclic_deref_{I} for I in ptr,vec param L=1..6 tier=quick loop=16 hang_s=60
H(h_cyclic_loop, cyclic_loop())
//@harness h_cyclic_loop param L=1..6 tier=quick loop=16 hang_s=60
