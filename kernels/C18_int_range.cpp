// C18 (part 1) - integer ranges, enum ranges, iterator::range / adapt_range / range::size enumerate exactly their
// documented sequence.
//
// int_range<T> / int_iterator<T> / make_int_range / make_int_range_count for T = int8, uint8, int16, uint16, int32, uint32,
// int64, uint64 and a strong typedef of int; begin b and end e are full-width symbolic (all pairs, no enumeration):
//   * begin() points at b, end() at max(b,e); the range is empty exactly when e <= b (inverted ranges are clamped to empty),
//   * inductive step for "yields b, b+1, ..., e-1": for every k with 0 <= k < count (count = e-b computed in 128 bits) the
//     iterator at b+k is not end(), dereferences to b+k, and after ONE increment dereferences to b+k+1 and equals end()
//     exactly when b+k+1 = e; iterator equality is value equality.  By induction on k, begin(), ++, ... visits b..e-1 once each,
//   * size() = count whenever count is representable in T (the property's own clause; for a wider count size() is not
//     called: for int32/int64 the subtraction would overflow, which the statement excludes),
//   * a real `for (auto x : range)` loop over ranges with count <= 4 (b, e still symbolic: ranges ending at the type's
//     maximum, starting at its minimum, negative, inverted ...) yields exactly b, b+1, ...; range::size agrees.
// enum_::range / make_range / make_range_start / make_range_start_end for enums with K = 1..9 enumerators over three
// underlying types; start and end enumerators symbolic with start <= end (a closed sub-range): every enumerator of
// [start, end] once, in order; size() = end-start+1.
// iterator::range / make_range / adapt_range / range::size over pointers into an int array with symbolic offsets and over
// a std::vector of param length.
//
// outside the claim: int_range<T>::size() when e-b is not representable in T (signed overflow inside size() for int/long:
// undefined behaviour that the documentation does not mention; excluded by the property statement);
// make_range_start_end(start, end) with end < start (no closed sub-range; not documented).
//@property C18
#include "verif_api.h"
#include <fcppt/int_iterator_impl.hpp>
#include <fcppt/int_range_impl.hpp>
#include <fcppt/make_int_range.hpp>
#include <fcppt/make_int_range_count.hpp>
#include <fcppt/make_literal_strong_typedef.hpp>
#include <fcppt/make_strong_typedef.hpp>
#include <fcppt/strong_typedef.hpp>
#include <fcppt/enum/make_range.hpp>
#include <fcppt/enum/make_range_start.hpp>
#include <fcppt/enum/make_range_start_end.hpp>
#include <fcppt/enum/range_impl.hpp>
#include <fcppt/iterator/adapt_range.hpp>
#include <fcppt/iterator/make_range.hpp>
#include <fcppt/iterator/range_impl.hpp>
#include <fcppt/range/size.hpp>
#include <fcppt/type_iso/strong_typedef.hpp>
#include <cstddef>
#include <cstdint>
#include <iterator>
#include <limits>
#include <type_traits>
#include <vector>

namespace
{
using W = __int128;
using u64 = std::uint64_t;
FCPPT_MAKE_STRONG_TYPEDEF(int, strong_int);

template <typename T> struct tr
{
  using base = T;
  static W val(T const t) { return static_cast<W>(t); }
  static T make(u64 const raw) { return static_cast<T>(raw); }
};
template <> struct tr<strong_int>
{
  using base = int;
  static W val(strong_int const t) { return static_cast<W>(t.get()); }
  static strong_int make(u64 const raw) { return strong_int{static_cast<int>(raw)}; }
};
template <typename T> constexpr W tmax() { return static_cast<W>(std::numeric_limits<typename tr<T>::base>::max()); }
template <typename T> constexpr W tmin() { return static_cast<W>(std::numeric_limits<typename tr<T>::base>::min()); }

template <typename T> void int_range_step()
{
  T const b{tr<T>::make(verif_u64("b"))}, e{tr<T>::make(verif_u64("e"))};
  W const B{tr<T>::val(b)}, E{tr<T>::val(e)};
  W const count{E > B ? E - B : 0};
  fcppt::int_range<T> const r{fcppt::make_int_range(b, e)};
  static_assert(std::is_same_v<decltype(r.begin()), fcppt::int_iterator<T>>);
  verif_assert(tr<T>::val(*r.begin()) == B, "begin() is at b");
  verif_assert(tr<T>::val(*r.end()) == (E > B ? E : B), "end() is at max(b, e)");
  verif_assert((r.begin() == r.end()) == (count == 0), "empty exactly when e <= b");
  verif_assert((r.begin() != r.end()) == (count != 0), "!= is the negation of ==");
  if (count <= tmax<T>())
  {
    verif_out("size", static_cast<u64>(r.size()));
    verif_assert(static_cast<W>(r.size()) == count, "size() = e - b (0 if e <= b) when representable");
    verif_reach("size");
  }
  // iterator equality is value equality
  T const x{tr<T>::make(verif_u64("x"))}, y{tr<T>::make(verif_u64("y"))};
  verif_assert((fcppt::int_iterator<T>{x} == fcppt::int_iterator<T>{y}) == (tr<T>::val(x) == tr<T>::val(y)), "iterators are equal iff at the same integer");
  // inductive step at the k-th element
  T const v{tr<T>::make(verif_u64("v"))};
  W const V{tr<T>::val(v)};
  if (V >= B && V < E) // v = b + k for some 0 <= k < count
  {
    fcppt::int_iterator<T> it{v};
    verif_assert(it != r.end(), "an element of the range is not end()");
    verif_assert(tr<T>::val(*it) == V, "dereference yields the current integer");
    ++it;
    verif_out("next", static_cast<u64>(tr<T>::val(*it)));
    verif_assert(tr<T>::val(*it) == V + 1, "one increment moves to the next integer");
    verif_assert((it == r.end()) == (V + 1 == E), "end() is reached exactly after e-1");
    fcppt::int_iterator<T> it2{v};
    fcppt::int_iterator<T> const old{it2++};
    verif_assert(tr<T>::val(*old) == V && tr<T>::val(*it2) == V + 1, "post-increment returns the old iterator");
    verif_reach("step");
  }
  verif_reach("end");
}

template <typename T> void int_range_iterate()
{
  T const b{tr<T>::make(verif_u64("b"))}, e{tr<T>::make(verif_u64("e"))};
  W const B{tr<T>::val(b)}, E{tr<T>::val(e)};
  W const count{E > B ? E - B : 0};
  verif_assume(count <= 4);
  fcppt::int_range<T> const r{fcppt::make_int_range(b, e)};
  W seen[8];
  unsigned n{0};
  for (T const x : r)
  {
    if (n < 8) seen[n] = tr<T>::val(x);
    ++n;
  }
  verif_out("n", n);
  verif_assert(static_cast<W>(n) == count, "the loop runs e - b times (not at all if e <= b)");
  for (unsigned i = 0; i < n && i < 8; ++i) verif_assert(seen[i] == B + i, "the i-th element is b + i");
  verif_assert(static_cast<W>(r.size()) == count, "size() = number of elements");
  // (range::size needs a signed difference_type; int_iterator<T>::difference_type is T itself)
  if constexpr (std::is_signed_v<T>) verif_assert(static_cast<W>(fcppt::range::size(r)) == count, "range::size = number of elements");
  verif_reach("end");
}

// range::size on ranges with MORE elements than the (narrow, signed) difference type can hold: the count wraps in the
// difference type and "as unsigned" restores it - the result, read as an unsigned number of its own width, is the number
// of elements whenever that number fits that width (always, for a range over T itself).  No iteration: b, e unrestricted.
template <typename T> void int_range_wide_size()
{
  T const b{tr<T>::make(verif_u64("b"))}, e{tr<T>::make(verif_u64("e"))};
  W const B{tr<T>::val(b)}, E{tr<T>::val(e)};
  W const count{E > B ? E - B : 0};
  fcppt::int_range<T> const r{fcppt::make_int_range(b, e)};
  auto const sz{fcppt::range::size(r)};
  u64 const got{static_cast<u64>(sz)};
  verif_out("got", got);
  verif_assert(got == static_cast<u64>(count), "range::size = number of elements, also beyond the maximum of the signed difference type");
  verif_reach("end");
}

template <typename T> void int_range_count()
{
  T const c{tr<T>::make(verif_u64("count"))};
  W const C{tr<T>::val(c)};
  fcppt::int_range<T> const r{fcppt::make_int_range_count(c)};
  verif_assert(tr<T>::val(*r.begin()) == 0 && tr<T>::val(*r.end()) == (C > 0 ? C : 0), "make_int_range_count(n) = [0, n)");
  verif_assert(static_cast<W>(r.size()) == (C > 0 ? C : 0), "make_int_range_count(n).size() = n");
  if (C <= 4)
  {
    W expect{0};
    bool ok{true};
    for (T const x : r)
    {
      ok = ok && tr<T>::val(x) == expect;
      ++expect;
    }
    verif_assert(ok && expect == (C > 0 ? C : 0), "make_int_range_count(n) yields 0, 1, ..., n-1");
    verif_reach("loop");
  }
  verif_reach("end");
}

// ---- enums with K enumerators
template <typename U, unsigned K> struct en { enum class type : U { e0 = 0, fcppt_maximum = K - 1 }; };

template <typename U, unsigned K> void enum_range()
{
  using E = typename en<U, K>::type;
  unsigned const s{verif_u8("start")}, e{verif_u8("end")};
  verif_assume(s <= e && e < K);
  E const se{static_cast<E>(s)}, ee{static_cast<E>(e)};
  unsigned n{0};
  bool ok{true};
  auto const sub{fcppt::enum_::make_range_start_end(se, ee)};
  for (E const x : sub)
  {
    ok = ok && static_cast<unsigned>(x) == s + n;
    ++n;
  }
  verif_out("n", n);
  verif_assert(ok && n == e - s + 1, "make_range_start_end(s, e) yields every enumerator of [s, e] once, in order");
  verif_assert(static_cast<unsigned>(sub.size()) == e - s + 1, "range::size() of a closed sub-range");
  verif_assert(static_cast<unsigned>(*sub.begin()) == s, "begin() is at start");
  n = 0;
  ok = true;
  auto const tail{fcppt::enum_::make_range_start(se)};
  for (E const x : tail)
  {
    ok = ok && static_cast<unsigned>(x) == s + n;
    ++n;
  }
  verif_assert(ok && n == K - s, "make_range_start(s) yields s .. maximum");
  verif_assert(static_cast<unsigned>(tail.size()) == K - s, "make_range_start(s).size()");
  n = 0;
  ok = true;
  auto const all{fcppt::enum_::make_range<E>()};
  for (E const x : all)
  {
    ok = ok && static_cast<unsigned>(x) == n;
    ++n;
  }
  verif_assert(ok && n == K && static_cast<unsigned>(all.size()) == K, "make_range yields every enumerator once, in order");
  verif_reach("end");
}

// ---- iterator::range, make_range, adapt_range, range::size
void iterator_range()
{
  static int const data[6] = {10, 11, 12, 13, 14, 15};
  unsigned const i{verif_u8("i")}, j{verif_u8("j")};
  verif_assume(i <= j && j <= 6);
  int const *const b{data + i}, *const e{data + j};
  fcppt::iterator::range<int const *> const r{b, e};
  verif_assert(r.begin() == b && r.end() == e, "iterator::range(b, e) = [b, e)");
  auto const r2{fcppt::iterator::make_range(b, e)};
  verif_assert(r2.begin() == b && r2.end() == e, "iterator::make_range(b, e) = [b, e)");
  verif_assert(fcppt::range::size(r) == j - i, "range::size = distance(begin, end)");
  unsigned n{0};
  bool ok{true};
  for (int const x : r)
  {
    ok = ok && x == static_cast<int>(10 + i + n);
    ++n;
  }
  verif_out("n", n);
  verif_assert(ok && n == j - i, "iterating iterator::range visits exactly the elements between the iterators");
  verif_reach("end");
}

void adapt_range()
{
  unsigned const len{static_cast<unsigned>(verif_param("len"))};
  std::vector<std::uint32_t> v;
  for (unsigned k = 0; k < len; ++k) v.push_back(static_cast<std::uint32_t>(verif_uf1(1, k)));
  auto const r{fcppt::iterator::adapt_range(v)};
  static_assert(std::is_same_v<std::remove_cv_t<decltype(r)>, fcppt::iterator::range<std::vector<std::uint32_t>::iterator>>);
  verif_assert(r.begin() == v.begin() && r.end() == v.end(), "adapt_range(range) = [begin(range), end(range))");
  std::vector<std::uint32_t> const &cv{v};
  auto const cr{fcppt::iterator::adapt_range(cv)};
  verif_assert(cr.begin() == cv.begin() && cr.end() == cv.end(), "adapt_range(const range)");
  verif_assert(fcppt::range::size(r) == len && fcppt::range::size(cr) == len && fcppt::range::size(v) == len, "range::size");
  unsigned n{0};
  bool ok{true};
  for (std::uint32_t const x : r)
  {
    ok = ok && x == static_cast<std::uint32_t>(verif_uf1(1, n));
    ++n;
  }
  verif_assert(ok && n == len, "the adapted range has the elements of the container");
  verif_reach("end");
}
}

#define H(name, ...) VERIF_HARNESS(name) { __VA_ARGS__; }
#define INT_ALL(M) M(i8, std::int8_t) M(u8, std::uint8_t) M(i16, std::int16_t) M(u16, std::uint16_t) M(i32, std::int32_t) M(u32, std::uint32_t) M(i64, std::int64_t) M(u64, std::uint64_t) M(strong, strong_int)
#define M_STEP(n, T) H(h_int_range_step_##n, int_range_step<T>())
#define M_ITER(n, T) H(h_int_range_iterate_##n, int_range_iterate<T>())
#define M_COUNT(n, T) H(h_int_range_count_##n, int_range_count<T>())
INT_ALL(M_STEP) INT_ALL(M_ITER) INT_ALL(M_COUNT)
//@harness h_int_range_step_{T} for T in i8,u8,i16,u16,i32,u32,i64,u64,strong tier=quick hang_s=60
//@harness h_int_range_iterate_{T} for T in i8,u8,i16,u16,i32,u32,i64,u64,strong tier=quick loop=12 hang_s=60
//@harness h_int_range_count_{T} for T in i8,u8,i16,u16,i32,u32,i64,u64,strong tier=quick loop=12 hang_s=60

#define EN_ROW(UN, U) H(h_enum_##UN##_1, enum_range<U, 1>()) H(h_enum_##UN##_2, enum_range<U, 2>()) H(h_enum_##UN##_3, enum_range<U, 3>()) H(h_enum_##UN##_4, enum_range<U, 4>()) \
  H(h_enum_##UN##_5, enum_range<U, 5>()) H(h_enum_##UN##_6, enum_range<U, 6>()) H(h_enum_##UN##_7, enum_range<U, 7>()) H(h_enum_##UN##_8, enum_range<U, 8>()) H(h_enum_##UN##_9, enum_range<U, 9>())
EN_ROW(u8, std::uint8_t) EN_ROW(int, int) EN_ROW(u32, std::uint32_t)
//@harness h_enum_{U}_{K} for U in u8,int,u32 for K in 1,2,3,4,5,6,7,8,9 tier=quick loop=16 hang_s=60

H(h_iterator_range, iterator_range())
//@harness h_iterator_range tier=quick loop=12 hang_s=60
H(h_adapt_range, adapt_range())
//@harness h_adapt_range param len=0..5 tier=quick loop=12 hang_s=60
H(h_int_range_wide_size_i8, int_range_wide_size<std::int8_t>()) H(h_int_range_wide_size_i16, int_range_wide_size<std::int16_t>())
//@harness h_int_range_wide_size_{T} for T in i8,i16 tier=quick
