// C18 (part 3) - grid::spiral_range / spiral_iterator and the neighbour helpers.
//
// spiral range: "visits every lattice point within the given Manhattan distance exactly once in rings of non-decreasing
// distance" (the property statement; the library's own test measures Manhattan distance and expects 4*k points in ring k).
// The origin (x0, y0) is symbolic (int32 and int64 coordinates; |x0|, |y0| <= max-16 so that origin +- (d+1) is
// representable - signed overflow is the only thing excluded), the distance d is a `param`: 0..6 (the property's range), all in the quick tier.
// The REAL range is iterated with a range-based for; asserted:
//   * the number of visited points is 1 + 2d(d+1) = #{(a,b) : |a|+|b| <= d},
//   * every visited point lies within Manhattan distance d of the origin, the first one is the origin,
//   * the distances along the sequence never decrease, and ring k (k = 1..d) has exactly 4k points,
//   * the visited points are pairwise distinct.
// Count + "inside the ball" + "pairwise distinct" give: every lattice point of the ball exactly once (the ball has
// exactly that many points).
// moore_neighbors / neumann_neighbors at a symbolic position (int32, int64, size_t coordinates; not at the extreme values,
// where +-1 is not representable - "No range checking is performed"): exactly the 4 points at Manhattan distance 1 / the 8
// points at Chebyshev distance 1, each once (order is not documented and not asserted).
//
// outside the claim: spiral distances > 6 and negative distances (not documented); positions whose neighbourhood is not
// representable.
//@property C18
#include "verif_api.h"
#include <fcppt/container/grid/make_spiral_range.hpp>
#include <fcppt/container/grid/moore_neighbors.hpp>
#include <fcppt/container/grid/neumann_neighbors.hpp>
#include <fcppt/container/grid/pos.hpp>
#include <fcppt/container/grid/spiral_iterator_impl.hpp>
#include <fcppt/container/grid/spiral_range_impl.hpp>
#include <fcppt/math/vector/comparison.hpp>
#include <cstddef>
#include <cstdint>
#include <limits>
#include <type_traits>

namespace
{
namespace grid = fcppt::container::grid;
using u64 = std::uint64_t;
using i64 = std::int64_t;

template <typename T> T sym_origin(char const *const name)
{
  T const v{static_cast<T>(verif_u64(name))};
  verif_assume(v >= std::numeric_limits<T>::min() + 16 && v <= std::numeric_limits<T>::max() - 16);
  return v;
}

template <typename T> void spiral()
{
  using pos = grid::pos<T, 2>;
  T const x0{sym_origin<T>("x0")}, y0{sym_origin<T>("y0")};
  T const d{static_cast<T>(verif_param("d"))};
  constexpr unsigned cap{128};
  T xs[cap], ys[cap];
  unsigned n{0};
  for (pos const p : grid::make_spiral_range(pos{x0, y0}, d))
  {
    if (n < cap)
    {
      xs[n] = p.x();
      ys[n] = p.y();
    }
    ++n;
    if (n > cap) break; // (never: the loop bound catches a runaway iteration first)
  }
  verif_out("n", n);
  unsigned const expect{static_cast<unsigned>(1 + 2 * d * (d + 1))};
  verif_assert(n == expect, "the spiral visits 1 + 2d(d+1) points (the number of lattice points within Manhattan distance d)");
  unsigned ring_count[8] = {0, 0, 0, 0, 0, 0, 0, 0};
  i64 prev{0};
  bool inside{true}, monotone{true};
  for (unsigned i = 0; i < n && i < cap; ++i)
  {
    T const dx{static_cast<T>(xs[i] - x0)}, dy{static_cast<T>(ys[i] - y0)};
    i64 const dist{static_cast<i64>(dx < 0 ? -dx : dx) + static_cast<i64>(dy < 0 ? -dy : dy)};
    inside = inside && dist <= d;
    monotone = monotone && dist >= prev;
    prev = dist;
    if (dist >= 0 && dist < 8) ++ring_count[dist];
  }
  verif_assert(n >= 1 && xs[0] == x0 && ys[0] == y0, "the spiral starts at the origin");
  verif_assert(inside, "every visited point is within Manhattan distance d");
  verif_assert(monotone, "rings of non-decreasing distance");
  bool rings{ring_count[0] == 1};
  for (unsigned k = 1; k <= static_cast<unsigned>(d); ++k) rings = rings && ring_count[k] == 4 * k;
  verif_assert(rings, "ring k has exactly 4k points");
  bool distinct{true};
  for (unsigned i = 0; i < n && i < cap; ++i)
    for (unsigned j = i + 1; j < n && j < cap; ++j) distinct = distinct && !(xs[i] == xs[j] && ys[i] == ys[j]);
  verif_assert(distinct, "no lattice point is visited twice");
  verif_reach("end");
}

template <typename T> void neighbours()
{
  using pos = grid::pos<T, 2>;
  T const x{static_cast<T>(verif_u64("x"))}, y{static_cast<T>(verif_u64("y"))};
  verif_assume(x > std::numeric_limits<T>::min() && x < std::numeric_limits<T>::max());
  verif_assume(y > std::numeric_limits<T>::min() && y < std::numeric_limits<T>::max());
  auto const dist1{[](T const a, T const b) { return a > b ? static_cast<u64>(a - b) : static_cast<u64>(b - a); }};
  auto const nn{grid::neumann_neighbors(pos{x, y})};
  static_assert(std::tuple_size_v<typename std::remove_cv_t<decltype(nn)>::impl_type> == 4);
  bool ok{true};
  T nx[8], ny[8];
  unsigned k{0};
  for (pos const &q : nn)
  {
    nx[k] = q.x();
    ny[k] = q.y();
    ++k;
    ok = ok && dist1(q.x(), x) + dist1(q.y(), y) == 1;
  }
  verif_assert(k == 4 && ok, "neumann_neighbors: four points at Manhattan distance 1");
  for (unsigned i = 0; i < 4; ++i)
    for (unsigned j = i + 1; j < 4; ++j) verif_assert(!(nx[i] == nx[j] && ny[i] == ny[j]), "neumann_neighbors: pairwise distinct");
  auto const mn{grid::moore_neighbors(pos{x, y})};
  static_assert(std::tuple_size_v<typename std::remove_cv_t<decltype(mn)>::impl_type> == 8);
  ok = true;
  k = 0;
  for (pos const &q : mn)
  {
    nx[k] = q.x();
    ny[k] = q.y();
    ++k;
    u64 const a{dist1(q.x(), x)}, b{dist1(q.y(), y)};
    ok = ok && (a > b ? a : b) == 1;
  }
  verif_assert(k == 8 && ok, "moore_neighbors: eight points at Chebyshev distance 1");
  for (unsigned i = 0; i < 8; ++i)
    for (unsigned j = i + 1; j < 8; ++j) verif_assert(!(nx[i] == nx[j] && ny[i] == ny[j]), "moore_neighbors: pairwise distinct");
  verif_reach("end");
}
}

#define H(name, ...) VERIF_HARNESS(name) { __VA_ARGS__; }
H(h_spiral_i32, spiral<std::int32_t>()) H(h_spiral_i64, spiral<std::int64_t>())
//@harness h_spiral_{T} for T in i32,i64 param d=0..6 tier=quick loop=4000 hang_s=60
H(h_neighbours_i32, neighbours<std::int32_t>()) H(h_neighbours_i64, neighbours<std::int64_t>()) H(h_neighbours_size_t, neighbours<std::size_t>())
//@harness h_neighbours_{T} for T in i32,i64,size_t tier=quick loop=40 hang_s=60
