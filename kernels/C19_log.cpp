// C19 - log levels follow "latest setting on a prefix wins"; lock discipline of the context.
//
// WHAT IS CLAIMED HERE
//  (1) Sequential semantics.  Real code: libs/log context.cpp, object.cpp, detail/context_tree_node.cpp,
//      impl/find_or_create_child.cpp, impl/find_child*.cpp, impl/convert_level.cpp, impl/tree_formatter.cpp,
//      format/chain.cpp, format/prefix.cpp, location.cpp, parameters*.cpp (unity build of the working tree, compiled with
//      the real build's -DENABLE_THREADS so that the std::mutex is in the IR) over tree::object<context_tree_node>,
//      tree::pre_order / to_root, enum_::from_int.  Histories of k steps; every step is chosen by the solver among
//      set(location, level) / get(location) / creation of a log object (three constructors) followed by enabled();
//      locations range over all 7 locations of depth <= 2 over the names {a,b} (the same names on both levels),
//      levels are symbolic (6 enumerators or "none").  Reference: the level of a location is the level of the most
//      recent set whose location is a prefix of it, the context's root level if there is none; enabled(l) iff the
//      level is not none and l >= level.  Checked after every step for the touched location and at the end of the
//      history for all 7 locations through context::get and through every log object created so far (level(),
//      enabled(l) for a symbolic l): log objects observe later sets on their prefixes.
//      A message is emitted exactly when enabled: object::log reaches level_stream::log (replaced in the executor
//      by a counting stub, the real one writes to an ostream) exactly once, on the level stream of the message's
//      level and with the object's formatter, iff level >= effective level, and never otherwise.
//      Text: object::formatter() applied to a message gives "<own formatter>(a: b: msg)", i.e. the location prefix in
//      root-to-leaf order inside the object's own formatter (doc: "root: child: warning: ...").
//  (2) Lock discipline (the mutex is modelled by the executor as a held-flag: models.py x_lock/x_unlock; locking a
//      held mutex or unlocking a free one is reported as a violation).  After every public operation of the context
//      (constructor, set, get, and the private find_location/find_child/root used by log::object's constructors)
//      no mutex is held.  //@probe puts a kernel hook on the entry of the internals that walk or mutate the context
//      tree: find_child / find_child_const / find_or_create_child, context::impl::find_location_impl,
//      tree::object<context_tree_node>::{insert,push_back}, pre_order<context_tree>::iterator::increment and the
//      level setter context_tree_node::level(optional_level const &); the hook asserts that exactly one mutex is held.
//      The harness also asserts that the hooks were actually hit.
//
// OUTSIDE THE CLAIM (not decidable with this technique here)
//  * Thread interleavings: absence of data races and "every observed level is one that some sequential ordering would
//    produce" for 2-6 concurrent threads.  This executor runs one thread; nothing in the image explores schedules of
//    this C++ code.  The claim is reduced to (2) plus the paper argument: one mutex around every access to the child
//    lists; the per-node level is a std::atomic<unsigned> (IR: load/store atomic seq_cst) read by log objects
//    without the lock; names and parent links are immutable after a node is published under the lock, and
//    tree_formatter reads only those (without the lock, in log::object's constructor).
//  * (In this file level_stream::log is a counting stub; the REAL level_stream::log - composition of the stream's and the
//    object's formatter, the text handed to the sink, the flush - is executed in C19_text.cpp.)
//    What the ostream does with the characters, fcppt::log::out / temporary_output (ostringstream),
//    default_level_streams / default_stream (std::clog), format::time_stamp, level_input/output: iostream and locale
//    are not modelled.  The level streams of the harness refer to std::clog as an opaque object
//    that is never written (natively nothing is written either because the stub counter decides, see emitted()).
//  * Histories longer than k = 3 (k = 2 with every first step and k = 3 starting with a set in the quick tier; k = 3 with
//    every first step and k = 4 of the form set;create;set;any in the thorough tier), location depth > 2, more than 2
//    names per level.  The statement's "length 60, depth 3, 3 names" is not reachable by path enumeration.
//@property C19
//@unity log
//@flags -DENABLE_THREADS
//@native_flags -finstrument-functions -Wno-pmf-conversions
//@stub ^_ZNK5fcppt3log12level_stream3logE verif_level_stream_log
//@probe ^_ZN5fcppt3log4impl10find_child verif_probe_walk
//@probe ^_ZN5fcppt3log4impl16find_child_const verif_probe_walk
//@probe ^_ZN5fcppt3log4impl20find_or_create_child verif_probe_walk
//@probe ^_ZN5fcppt3log7context4impl18find_location_impl verif_probe_walk
//@probe ^_ZN5fcppt9container4tree6objectINS_3log6detail17context_tree_nodeEE(6insert|9push_back)E verif_probe_mutate
//@probe ^_ZN5fcppt9container4tree9pre_orderINS1_6objectINS_3log6detail17context_tree_nodeEEEE8iterator9incrementEv verif_probe_walk
//@probe ^_ZN5fcppt3log6detail17context_tree_node5levelERKNS_8optional6objectINS0_5levelEEE verif_probe_setlevel
#include "C19_unity.hpp"

// ------------------------------------------------------------------ lock model and hooks
// Executor: models.py keeps a held-flag per mutex (verif_locks_held), the //@probe lines call the hooks.
// Native replay (so that a lock-discipline counterexample reproduces outside the executor): pthread_mutex_lock/unlock
// are interposed by counting wrappers, and g++ -finstrument-functions (//@native_flags) calls
// __cyg_profile_func_enter on every function entry, which dispatches to the same hooks for the same functions
// (except the private context::impl::find_location_impl, whose address cannot be named from here).
#define VERIF_NOINSTR __attribute__((no_instrument_function))
#ifdef VERIF_NATIVE
#include <dlfcn.h>
#include <pthread.h>
namespace
{
long native_held;
using mutex_fn = int (*)(pthread_mutex_t *);
VERIF_NOINSTR mutex_fn next_fn(char const *const n) { return reinterpret_cast<mutex_fn>(dlsym(RTLD_NEXT, n)); }
VERIF_NOINSTR std::uint64_t locks_now() { return static_cast<std::uint64_t>(native_held); }
}
extern "C" VERIF_NOINSTR int pthread_mutex_lock(pthread_mutex_t *const m)
{
  static mutex_fn const real = next_fn("pthread_mutex_lock");
  int const r = real(m);
  if (r == 0) ++native_held;
  return r;
}
extern "C" VERIF_NOINSTR int pthread_mutex_unlock(pthread_mutex_t *const m)
{
  static mutex_fn const real = next_fn("pthread_mutex_unlock");
  --native_held;
  return real(m);
}
#else
namespace
{
std::uint64_t locks_now() { return verif_locks_held(); }
}
#endif
namespace
{
unsigned probe_walk, probe_mutate, probe_setlevel, stub_calls;
fcppt::log::level_stream const *stub_this;
fcppt::log::format::optional_function const *stub_formatter;
}
extern "C" VERIF_NOINSTR void verif_probe_walk(void)
{
  ++probe_walk;
  verif_assert(locks_now() == 1, "context tree is searched only while the context mutex is held");
}
extern "C" VERIF_NOINSTR void verif_probe_mutate(void)
{
  ++probe_mutate;
  verif_assert(locks_now() == 1, "context tree is extended only while the context mutex is held");
}
extern "C" VERIF_NOINSTR void verif_probe_setlevel(void)
{
  ++probe_setlevel;
  verif_assert(locks_now() == 1, "levels are rewritten only while the context mutex is held");
}
#ifdef VERIF_NATIVE
namespace
{
using ctree = fcppt::log::detail::context_tree;
using cnode = fcppt::log::detail::context_tree_node;
template <typename F>
VERIF_NOINSTR void *addr(F const f) { return (void *)f; } // GCC extension: address of a (member) function as void *
bool in_hook;
}
extern "C" VERIF_NOINSTR void __cyg_profile_func_enter(void *const fn, void *)
{
  if (in_hook) return;
  in_hook = true;
  // explicit signatures: an added overload must not make these addresses ambiguous (= a kernel that no longer compiles)
  using walk_fn = decltype(fcppt::log::impl::find_or_create_child(std::declval<fcppt::reference<ctree>>(), std::declval<fcppt::log::name const &>())) (*)(fcppt::reference<ctree>, fcppt::log::name const &);
  using find_fn = decltype(fcppt::log::impl::find_child(std::declval<fcppt::reference<ctree>>(), std::declval<fcppt::log::name const &>())) (*)(fcppt::reference<ctree>, fcppt::log::name const &);
  using cfind_fn = decltype(fcppt::log::impl::find_child_const(std::declval<fcppt::reference<ctree const>>(), std::declval<fcppt::log::name const &>())) (*)(fcppt::reference<ctree const>, fcppt::log::name const &);
  if (fn == addr(static_cast<find_fn>(&fcppt::log::impl::find_child)) || fn == addr(static_cast<cfind_fn>(&fcppt::log::impl::find_child_const)) ||
      fn == addr(static_cast<walk_fn>(&fcppt::log::impl::find_or_create_child)) ||
      fn == addr(&fcppt::container::tree::pre_order<ctree>::iterator::increment))
    verif_probe_walk();
  else if (
      fn == addr(static_cast<void (ctree::*)(ctree::iterator, ctree &&)>(&ctree::insert)) ||
      fn == addr(static_cast<ctree::reference (ctree::*)(ctree &&)>(&ctree::push_back)))
    verif_probe_mutate();
  else if (fn == addr(static_cast<void (cnode::*)(fcppt::log::optional_level const &)>(&cnode::level)))
    verif_probe_setlevel();
  in_hook = false;
}
extern "C" VERIF_NOINSTR void __cyg_profile_func_exit(void *, void *) {}
#endif
// same signature as  void fcppt::log::level_stream::log(temporary_output const &, optional_function const &) const
extern "C" void verif_level_stream_log(
    fcppt::log::level_stream const *const self,
    fcppt::log::detail::temporary_output const &,
    fcppt::log::format::optional_function const &fmt)
{
  ++stub_calls;
  stub_this = self;
  stub_formatter = &fmt;
}

namespace
{
namespace lg = fcppt::log;
constexpr unsigned NLOC = 7, NONE_LVL = 6, MAXSETS = 8;

// locations: 0 = {} (root), 1 = {a}, 2 = {b}, 3 + 2*i + j = {name i, name j}
char const *const names[2] = {"a", "b"};
unsigned depth_of(unsigned const loc) { return loc == 0 ? 0U : loc < 3 ? 1U : 2U; }
unsigned first_of(unsigned const loc) { return loc < 3 ? loc - 1 : (loc - 3) / 2; }
unsigned second_of(unsigned const loc) { return (loc - 3) % 2; }
lg::location make_location(unsigned const loc)
{
  lg::location r{};
  if (depth_of(loc) >= 1) r /= lg::name{fcppt::string{names[first_of(loc)]}};
  if (depth_of(loc) >= 2) r /= lg::name{fcppt::string{names[second_of(loc)]}};
  return r;
}
lg::location const *locs[NLOC];
lg::location const &location_of(unsigned const loc) { return *locs[loc]; }
bool is_prefix(unsigned const p, unsigned const q)
{
  if (p == 0 || p == q) return true;
  return depth_of(p) == 1 && depth_of(q) == 2 && first_of(q) == first_of(p);
}

// ---- reference: most recent set on a prefix, else the root level
struct setrec { unsigned loc; unsigned lvl; };
setrec sets[MAXSETS];
unsigned nsets, root_level;
unsigned ref_level(unsigned const loc)
{
  unsigned r = root_level;
  for (unsigned i = 0; i < nsets; ++i)
    if (is_prefix(sets[i].loc, loc)) r = sets[i].lvl;
  return r;
}

lg::optional_level to_optional(unsigned const l)
{
  return l < NONE_LVL ? lg::optional_level{static_cast<lg::level>(l)} : lg::optional_level{};
}
unsigned to_int(lg::optional_level const &o) { return o.has_value() ? static_cast<unsigned>(o.get_unsafe()) : NONE_LVL; }
unsigned fresh_level(char const *const n)
{
  unsigned const l = verif_u8(n);
  verif_assume(l <= NONE_LVL);
  return l;
}

unsigned char ident[8] = {0, 1, 2, 3, 4, 5, 6, 7};
unsigned pick(char const *const n, unsigned const lo, unsigned const hi)
{
  unsigned const s = verif_u8(n);
  verif_assume(s >= lo && s <= hi);
  return *const_cast<unsigned char volatile *>(&ident[s]);
}

lg::level_stream_array make_streams()
{
  // sinks are never written in the executor: std::clog is only an address here
  return fcppt::enum_::array_init<lg::level_stream_array>(
      [](lg::level) { return lg::level_stream(std::clog, lg::format::optional_function{}); });
}

lg::context *ctx;
lg::object *objs[NLOC];

void no_lock(char const *const what) { verif_assert(locks_now() == 0, what); }

void do_set(unsigned const loc, unsigned const lvl)
{
  ctx->set(location_of(loc), to_optional(lvl));
  no_lock("no mutex is held after context::set");
  verif_assume(nsets < MAXSETS);
  sets[nsets].loc = loc; sets[nsets].lvl = lvl; ++nsets;
}
std::uint64_t seen_levels;
void check_get(unsigned const loc)
{
  lg::context const &cc = *ctx;
  unsigned const got = to_int(cc.get(location_of(loc)));
  no_lock("no mutex is held after context::get");
  verif_assert(got == ref_level(loc), "get(location) is the most recent set on a prefix, else the root level");
  seen_levels = seen_levels * 7 + got;
}
// the own formatter of log objects created by the harness
fcppt::string own_format(fcppt::string const &s) { return "F<" + s + ">"; }

void check_object(unsigned const loc, bool const emit)
{
  lg::object &o = *objs[loc];
  unsigned const expect = ref_level(loc);
  verif_assert(to_int(o.level()) == expect, "log object's level is the most recent set on a prefix of its location");
  unsigned const l = verif_u8("probe_level");
  verif_assume(l < NONE_LVL);
  bool const should = expect != NONE_LVL && l >= expect;
  verif_assert(o.enabled(static_cast<lg::level>(l)) == should, "enabled(l) iff l >= effective level");
  no_lock("no mutex is held after object::level/enabled");
  if (emit)
  {
#ifdef VERIF_NATIVE
    bool const emitted = should; // natively the real level_stream::log would write to std::clog; not observed here
#else
    // object::log -> level_stream::log is redirected to verif_level_stream_log; the message object is never looked at
    alignas(16) static unsigned char raw[sizeof(lg::detail::temporary_output)];
    lg::detail::temporary_output const &msg = *reinterpret_cast<lg::detail::temporary_output const *>(raw);
    unsigned const before = stub_calls;
    o.log(static_cast<lg::level>(l), msg);
    bool const emitted = stub_calls == before + 1;
    verif_assert(stub_calls == before || emitted, "a message is emitted at most once");
    if (emitted)
    {
      verif_assert(stub_this == &o.level_streams()[static_cast<lg::level>(l)], "emitted on the level stream of the message's level");
      verif_assert(stub_this == &ctx->level_streams().get()[static_cast<lg::level>(l)], "level streams are the context's");
      verif_assert(stub_formatter == &o.formatter(), "emitted with the object's formatter");
    }
#endif
    verif_assert(emitted == should, "a message is emitted exactly when its level is at least the effective level");
  }
}
void check_text(unsigned const loc)
{
  lg::object const &o = *objs[loc];
  verif_assert(o.formatter().has_value(), "a log object below the root has a formatter");
  fcppt::string expect{"m"};
  if (depth_of(loc) == 2) expect = fcppt::string{names[second_of(loc)]} + ": " + expect;
  expect = fcppt::string{names[first_of(loc)]} + ": " + expect;
  expect = "F<" + expect + ">";
  fcppt::string const got{o.formatter().get_unsafe()(fcppt::string{"m"})};
  verif_assert(got == expect, "formatter text: own formatter around the location prefix in root-to-leaf order");
}
// how: 0 = (context, name) / (context, location, name); 1 = (parent object, name) when the parent object exists
void do_create(unsigned const loc, unsigned const how)
{
  verif_assume(loc != 0 && objs[loc] == nullptr);
  unsigned const last = depth_of(loc) == 1 ? first_of(loc) : second_of(loc);
  lg::parameters const params{
      lg::name{fcppt::string{names[last]}}, lg::format::optional_function{lg::format::function{&own_format}}};
  lg::context_reference const cref{fcppt::make_ref(*ctx)};
  unsigned const mut_before = probe_mutate;
  if (depth_of(loc) == 1) objs[loc] = new lg::object(cref, params);
  else
  {
    unsigned const parent = 1 + first_of(loc);
    if (how != 0 && objs[parent] != nullptr) objs[loc] = new lg::object(*objs[parent], params);
    else objs[loc] = new lg::object(cref, location_of(parent), params);
  }
  (void)mut_before;
  no_lock("no mutex is held after constructing a log object");
  check_object(loc, false);
}

enum : unsigned { OP_SET, OP_GET, OP_CREATE, NOPS };

void step(unsigned const fixed_op, unsigned const fixed_loc)
{
  unsigned const op = fixed_op < NOPS ? fixed_op : pick("op", 0, NOPS - 1);
  unsigned const loc = fixed_loc < NLOC ? fixed_loc : pick("loc", 0, NLOC - 1);
  switch (op)
  {
  case OP_SET: do_set(loc, fresh_level("level")); break;
  case OP_GET: check_get(loc); break;
  default: do_create(loc, verif_u8("how") & 1U); break;
  }
}

void setup()
{
  for (unsigned loc = 0; loc < NLOC; ++loc) locs[loc] = new lg::location(make_location(loc));
  root_level = fresh_level("root_level");
  ctx = new lg::context(to_optional(root_level), make_streams());
  no_lock("no mutex is held after constructing the context");
}
void final_checks(bool const text)
{
  for (unsigned loc = 0; loc < NLOC; ++loc) check_get(loc);
  for (unsigned loc = 1; loc < NLOC; ++loc)
    if (objs[loc] != nullptr)
    {
      check_object(loc, true);
      if (text) check_text(loc);
    }
}
void teardown()
{
  for (unsigned loc = 0; loc < NLOC; ++loc) delete objs[loc];
  delete ctx;
  for (unsigned loc = 0; loc < NLOC; ++loc) delete locs[loc];
}
void observe()
{
  verif_out("levels", seen_levels); // every level observed through context::get, in order
  verif_out("sets", nsets);
}
}

// histories: op0/loc0 (params; a value outside the range means "chosen by the solver") partition the first step for
// parallelism
VERIF_HARNESS(h_hist)
{
  unsigned const k = static_cast<unsigned>(verif_param("k"));
  unsigned const op0 = static_cast<unsigned>(verif_param("op0")), loc0 = static_cast<unsigned>(verif_param("loc0"));
  setup();
  for (unsigned s = 0; s < k; ++s) step(s == 0 ? op0 : NOPS, s == 0 ? loc0 : NLOC);
  final_checks(false);
  observe();
  teardown();
  verif_reach("hist-end");
}
// k = 4: set(loc0) ; create an object anywhere ; set anywhere ; any operation anywhere
VERIF_HARNESS(h_hist4)
{
  unsigned const loc0 = static_cast<unsigned>(verif_param("loc0"));
  setup();
  step(OP_SET, loc0);
  step(OP_CREATE, NLOC);
  step(OP_SET, NLOC);
  step(NOPS, NLOC);
  final_checks(false);
  observe();
  teardown();
  verif_reach("hist4-end");
}

// the documented example shape with everything symbolic that can be: objects at {a}, {a,b} and {b,a} through the three
// constructors, a set before, between and after (locations l0 = param or solver's choice, the others solver's choice),
// emission and formatter text checked for every object
VERIF_HARNESS(h_objects)
{
  setup();
  unsigned const how = static_cast<unsigned>(verif_param("how")), l0 = static_cast<unsigned>(verif_param("l0"));
  do_create(1, 0);
  do_set(l0 < NLOC ? l0 : pick("loc", 0, NLOC - 1), fresh_level("level"));
  do_create(4, how);
  do_create(5, 1 - how);
  do_set(pick("loc", 0, NLOC - 1), fresh_level("level"));
  final_checks(true);
  verif_assert(probe_walk > 0 && probe_mutate > 0 && probe_setlevel > 0, "harness: the lock-discipline hooks were hit");
  observe();
  teardown();
  verif_reach("objects-end");
}

// pinned history: set({a}, w); set({a,b}, v); set({a}, w) - the second set on {a} has the level {a} already has, and
// must still rewrite {a,b} (and the log object living there) to w.  obj = 1: a log object at {a,b} exists from the start.
VERIF_HARNESS(h_reset_same_level)
{
  setup();
  unsigned const w = fresh_level("w"), v = fresh_level("v");
  bool const with_object = verif_param("obj") != 0;
  do_set(1, w);
  if (with_object) do_create(4, 0);
  do_set(4, v);
  check_get(4);
  check_get(1);
  do_set(1, w);
  {
    lg::context const &cc = *ctx;
    verif_assert(to_int(cc.get(location_of(4))) == w, "set(a,w); set(a/b,v); set(a,w): a/b has level w again");
    verif_assert(to_int(cc.get(location_of(1))) == w, "set(a,w); set(a/b,v); set(a,w): a has level w");
    if (with_object) verif_assert(to_int(objs[4]->level()) == w, "... and so does the log object at a/b");
  }
  final_checks(false);
  observe();
  teardown();
  verif_reach("reset-end");
}

// pinned histories (depth 3): a node created on the way inherits the level of its DEEPEST EXISTING ANCESTOR, i.e. the
// most recent set on a prefix - also when several nodes are created at once along a location path, and when that prefix
// was set (to a level that may differ from the root's) before the deeper nodes existed.  All levels symbolic.
//   variant 0: set({a},w); set({a,b,c},x)            -> {a,b} (created on the way) has w, {a,b,c} has x
//   variant 1: set({a},w); object(ctx, {a,b}, "c")    -> {a,b}, {a,b,c} and the object have w; then set({a,b},x) -> x
//   variant 2: set({a},w); object(ctx,"a"); object(parent,"b"); object(ctx,{a},"c") (the find_child path) -> all w
//   variant 3: set({a},w); set({a,b},v); object(ctx, {a,b,c}, "d") -> {a,b,c} and {a,b,c,d} have v, {a} keeps w
VERIF_HARNESS(h_inherit)
{
  unsigned const variant = static_cast<unsigned>(verif_param("variant"));
  setup(); // root level symbolic
  unsigned const w = fresh_level("w"), x = fresh_level("x"), v = fresh_level("v");
  unsigned const l = verif_u8("probe_level");
  verif_assume(l < NONE_LVL);
  auto const nm = [](char const *const c) { return lg::name{fcppt::string{c}}; };
  lg::location const la{nm("a")};
  lg::location const lab{lg::location{nm("a")} / nm("b")};
  lg::location const lad{lg::location{nm("a")} / nm("d")};
  lg::location const labc{lg::location{nm("a")} / nm("b") / nm("c")};
  lg::location const labd{lg::location{nm("a")} / nm("b") / nm("d")};
  lg::location const labcd{lg::location{nm("a")} / nm("b") / nm("c") / nm("d")};
  lg::location const lb{nm("b")};
  lg::context const &cc = *ctx;
  lg::context_reference const cref{fcppt::make_ref(*ctx)};
  auto const level_at = [&cc](lg::location const &loc) {
    unsigned const r = to_int(cc.get(loc));
    no_lock("no mutex is held after context::get");
    return r;
  };
  auto const follows = [l](lg::object const &o, unsigned const expect, char const *const what_level, char const *const what_enabled) {
    verif_assert(to_int(o.level()) == expect, what_level);
    verif_assert(o.enabled(static_cast<lg::level>(l)) == (expect != NONE_LVL && l >= expect), what_enabled);
  };
  ctx->set(la, to_optional(w));
  no_lock("no mutex is held after context::set");
  verif_assert(level_at(la) == w && level_at(lab) == w, "set({a},w): {a} and everything below reports w");
  verif_assert(level_at(lb) == root_level && level_at(lg::location{}) == root_level, "set({a},w) leaves the root and {b} alone");
  if (variant == 0)
  {
    ctx->set(labc, to_optional(x));
    no_lock("no mutex is held after context::set");
    verif_assert(level_at(lab) == w, "set({a},w); set({a,b,c},x): {a,b}, created on the way, inherits w from {a}");
    verif_assert(level_at(labc) == x, "set({a},w); set({a,b,c},x): {a,b,c} has x");
    verif_assert(level_at(labd) == w && level_at(lad) == w && level_at(la) == w, "... {a}, {a,d}, {a,b,d} report w");
    lg::object const below{cref, lab, lg::parameters_no_function(nm("d"))};
    follows(below, w, "an object then created at {a,b,d} has w", "... and enabled() follows w");
  }
  else if (variant == 1)
  {
    lg::object const o{cref, lab, lg::parameters_no_function(nm("c"))};
    no_lock("no mutex is held after constructing a log object");
    follows(o, w, "set({a},w); object(ctx,{a,b},c): the object inherits w through the new node {a,b}", "... and enabled() follows w");
    verif_assert(level_at(lab) == w && level_at(labc) == w, "... {a,b} and {a,b,c}, both created by the constructor, have w");
    ctx->set(lab, to_optional(x));
    follows(o, x, "a later set({a,b},x) reaches the object at {a,b,c}", "... and its enabled()");
    verif_assert(level_at(la) == w, "... and leaves {a} at w");
  }
  else if (variant == 2)
  {
    lg::object const pa{cref, lg::parameters_no_function(nm("a"))};
    lg::object const by_parent{pa, lg::parameters_no_function(nm("b"))};
    lg::object const by_location{cref, la, lg::parameters_no_function(nm("c"))};
    no_lock("no mutex is held after constructing log objects");
    follows(pa, w, "object(ctx,a) at the existing node {a} has w", "... enabled()");
    follows(by_parent, w, "object(parent,b): new node {a,b} inherits w", "... enabled()");
    follows(by_location, w, "object(ctx,{a},c): new node {a,c} inherits w", "... enabled()");
    verif_assert(level_at(lab) == w, "get({a,b}) agrees");
  }
  else
  {
    ctx->set(lab, to_optional(v));
    lg::object const o{cref, labc, lg::parameters_no_function(nm("d"))};
    follows(o, v, "set({a},w); set({a,b},v); object(ctx,{a,b,c},d): inherits v from {a,b}, the deepest existing ancestor", "... enabled()");
    verif_assert(level_at(labc) == v && level_at(labcd) == v, "... {a,b,c} and {a,b,c,d} have v");
    verif_assert(level_at(la) == w && level_at(lad) == w, "... {a} and {a,d} keep w");
  }
  verif_assert(probe_walk > 0 && probe_mutate > 0, "harness: the lock-discipline hooks were hit");
  verif_out("variant", variant);
  teardown();
  verif_reach("inherit-end");
}

// operation codes: 0 set, 1 get, 2 create object; locations: 0 {} 1 {a} 2 {b} 3 {a,a} 4 {a,b} 5 {b,a} 6 {b,b}
//@harness h_hist param k=1 param op0=9 param loc0=9 tier=quick loop=40 leak=1
//@harness h_hist param k=2 param op0=0..2 param loc0=9 tier=quick loop=40 leak=1
// k = 3 starting with a set: one location per class under renaming a<->b in the quick tier, the mirror images in thorough
//@harness h_hist param k=3 param op0=0 param loc0=0,1,3,4 tier=quick loop=40 leak=1
//@harness h_hist param k=3 param op0=0 param loc0=2,5,6 tier=thorough loop=40 leak=1 paths=100000 wall=3000
//@harness h_hist param k=3 param op0=1 param loc0=0,4 tier=thorough loop=40 leak=1 paths=100000 wall=3000
//@harness h_hist param k=3 param op0=2 param loc0=1..6 tier=thorough loop=40 leak=1 paths=100000 wall=3000
//@harness h_hist4 param loc0=0,1,4 tier=thorough loop=40 leak=1 paths=200000 wall=3000
//@harness h_reset_same_level param obj=0..1 tier=quick loop=40 leak=1
// objects through the three constructors with sets in between, emission and formatter() text (this line was lost when the
// thorough list was resized; restored)
//@harness h_objects param how=0..1 param l0=0..6 tier=quick loop=40 leak=1
//@harness h_inherit param variant=0..3 tier=quick loop=40 leak=1 validate=12
