// C19 (message text) - the text a log object hands to the sink carries the location prefix and the formatter chain in
// the documented order.
//
// C19_log.cpp replaces level_stream::log by a counting stub.  Here the REAL object::log -> level_stream::log
// (libs/log/src/log/level_stream.cpp), format::chain / optional::combine / optional::from / fcppt::identity, the
// fcppt::function (std::function) plumbing, format::prefix and impl::tree_formatter are executed; only the two ends that
// are iostream are replaced in the executor:
//   * temporary_output::result() (ostringstream::str()) returns the harness' message, one symbolic character;
//   * the final insertion into the sink, std::__ostream_insert(os, data, n) - what operator<<(ostream&, string const&)
//     expands to - records the characters and the sink's address in a buffer, std::ostream::flush() is counted.
// Natively nothing is replaced: the sinks are std::ostringstream objects, the message is built with fcppt::log::out, and
// the same assertions compare the text that arrived in the sink, so replays compare the same text.
//
// Chosen by the solver: whether the level streams have a formatter ("S<...>"), whether the object has an own formatter
// ("F<...>"), whether its location contributes a prefix (object named "a" below the root, or "b" below location {a},
// or an object with the empty name, which has no prefix), the message's level l, the context's threshold t, the
// message character.  All 2 x 2 x 3 combinations, in particular {stream formatter / none} x {object formatter / none}.
// Reference (doc/files/modules/log.doxygen: "root: child: warning: Print from child.", formatting example: the object's
// own formatter "in front of every log message"):   text = F<  a: b:  S< msg > >   with absent parts dropped -
// nothing else is dropped when one side is absent, and the text is the message itself when all are absent.
// Emission: exactly one insertion, into the sink of the message's level, followed by one flush, iff l >= t (t not
// "none"); nothing is written otherwise.
// Outside the claim: what the streambuf does with the characters; format::default_level / time_stamp texts
// (level_to_string, locale, clock); wide-character builds.
//@property C19
//@unity log
//@flags -DENABLE_THREADS
//@stub ^_ZNK5fcppt3log6detail16temporary_output6result verif_output_result
//@stub ^_ZSt16__ostream_insertIcSt11char_traitsIcEERSt13basic_ostreamIT_T0_ES6_PKS3_l$ verif_ostream_insert
//@stub ^_ZNSo5flushEv$ verif_ostream_flush
#include "C19_unity.hpp"
#include <fcppt/log/out.hpp>
#include <sstream>

namespace
{
namespace lg = fcppt::log;
constexpr unsigned NLEVELS = 6, NONE_LVL = 6;

// ---- what reached the sink
char message_char;
#ifdef VERIF_NATIVE
std::ostringstream *native_sinks[NLEVELS];
std::ostream &sink(unsigned const l) { return *native_sinks[l]; }
#else
// the sinks are addresses only: every access to them is one of the two stubbed calls
alignas(16) unsigned char sink_storage[NLEVELS][16];
std::ostream &sink(unsigned const l) { return *reinterpret_cast<std::ostream *>(&sink_storage[l][0]); }
unsigned inserts, flushes, flushes_before_insert;
std::ostream const *insert_sink, *flush_sink;
std::string *captured; // allocated by the harness (no dynamic initialisation of globals in the executor)
#endif
}
#ifndef VERIF_NATIVE
extern "C" fcppt::string verif_output_result(lg::detail::temporary_output const *) { return fcppt::string(1, message_char); }
extern "C" std::ostream &verif_ostream_insert(std::ostream &os, char const *const data, long const n)
{
  ++inserts;
  insert_sink = &os;
  captured->append(data, static_cast<std::size_t>(n));
  return os;
}
extern "C" std::ostream &verif_ostream_flush(std::ostream *const os)
{
  if (inserts == 0) ++flushes_before_insert;
  ++flushes;
  flush_sink = os;
  return *os;
}
#endif

namespace
{
fcppt::string stream_format(fcppt::string const &s) { return "S<" + s + ">"; }
fcppt::string own_format(fcppt::string const &s) { return "F<" + s + ">"; }
unsigned char ident[8] = {0, 1, 2, 3, 4, 5, 6, 7};
unsigned pick(char const *const n, unsigned const hi)
{
  unsigned const s = verif_u8(n);
  verif_assume(s <= hi);
  return *const_cast<unsigned char volatile *>(&ident[s]);
}
lg::optional_level to_optional(unsigned const l)
{
  return l < NONE_LVL ? lg::optional_level{static_cast<lg::level>(l)} : lg::optional_level{};
}
}

VERIF_HARNESS(h_text)
{
  bool const stream_has = pick("stream_formatter", 1) != 0;
  bool const own_has = pick("own_formatter", 1) != 0;
  unsigned const where = pick("where", 2); // 0: empty name below the root (no prefix), 1: {a}, 2: {a,b}
  unsigned const l = pick("level", NLEVELS - 1);
  unsigned const t = verif_u8("threshold");
  verif_assume(t <= NONE_LVL);
  message_char = static_cast<char>(verif_u8("message"));
#ifdef VERIF_NATIVE
  for (unsigned i = 0; i < NLEVELS; ++i) native_sinks[i] = new std::ostringstream();
#else
  captured = new std::string();
#endif
  lg::context ctx{
      to_optional(t), fcppt::enum_::array_init<lg::level_stream_array>([stream_has](lg::level const lev) {
        return lg::level_stream(
            sink(static_cast<unsigned>(lev)),
            stream_has ? lg::format::optional_function{lg::format::function{&stream_format}}
                       : lg::format::optional_function{});
      })};
  lg::format::optional_function own{
      own_has ? lg::format::optional_function{lg::format::function{&own_format}} : lg::format::optional_function{}};
  lg::parameters const params{lg::name{fcppt::string{where == 0 ? "" : where == 1 ? "a" : "b"}}, std::move(own)};
  lg::context_reference const cref{fcppt::make_ref(ctx)};
  lg::object *const obj =
      where == 2 ? new lg::object(cref, lg::location{lg::name{fcppt::string{"a"}}}, params) : new lg::object(cref, params);
  verif_assert(
      obj->formatter().has_value() == (own_has || where != 0), "object has a formatter iff own formatter or a named location");
  verif_assert(obj->level_streams()[static_cast<lg::level>(l)].formatter().has_value() == stream_has, "stream formatter as given");

#ifdef VERIF_NATIVE
  obj->log(static_cast<lg::level>(l), fcppt::log::out << fcppt::string(1, message_char));
#else
  alignas(16) static unsigned char raw[sizeof(lg::detail::temporary_output)]; // only result() looks at it: stubbed
  obj->log(static_cast<lg::level>(l), *reinterpret_cast<lg::detail::temporary_output const *>(raw));
#endif

  // expected text, inside out: message, stream formatter, location prefix leaf to root, own formatter
  fcppt::string expect(1, message_char);
  if (stream_has) expect = "S<" + expect + ">";
  if (where == 2) expect = "b: " + expect;
  if (where >= 1) expect = "a: " + expect;
  if (own_has) expect = "F<" + expect + ">";
  bool const should = t != NONE_LVL && l >= t;

#ifdef VERIF_NATIVE
  fcppt::string const got{native_sinks[l]->str()};
  bool others_empty = true;
  for (unsigned i = 0; i < NLEVELS; ++i)
    if (i != l && !native_sinks[i]->str().empty()) others_empty = false;
  bool const emitted = !got.empty();
  bool const right_sink = others_empty;
#else
  fcppt::string const &got = *captured;
  bool const emitted = inserts != 0;
  bool const right_sink = inserts == 0 || insert_sink == &sink(l);
  verif_assert(inserts <= 1, "the text is handed to the sink in one insertion");
  verif_assert(flushes == inserts && flushes_before_insert == 0, "one flush, after the insertion, only when something was written");
  verif_assert(flushes == 0 || flush_sink == &sink(l), "the flushed stream is the sink of the message's level");
#endif
  verif_assert(emitted == should, "text reaches a sink exactly when the level is at least the effective level");
  verif_assert(right_sink, "only the sink of the message's level is written");
  if (should)
  {
    verif_assert(got.size() == expect.size(), "text length: nothing dropped, nothing added");
    verif_assert(got == expect, "text = own formatter( location prefix root-to-leaf ( stream formatter( message ) ) )");
    if (!stream_has && !own_has && where == 0) verif_assert(got == fcppt::string(1, message_char), "no formatter anywhere: the message itself");
  }
  verif_out("emitted", emitted);
  verif_out("length", got.size());
  delete obj;
#ifdef VERIF_NATIVE
  for (unsigned i = 0; i < NLEVELS; ++i) delete native_sinks[i];
#else
  delete captured;
#endif
  verif_reach("text-end");
}

//@harness h_text tier=quick loop=40
