// C20 - random wrappers are transparent and stay within the requested bounds.
// Real code: fcppt::random::variate, distribution::basic, distribution::parameters::uniform_int (+ uniform_int_wrapper),
// make_uniform_enum(_advanced), make_uniform_indices(_advanced), wrapper::uniform_container + make_uniform_container(_advanced),
// generator::basic_pseudo<std::minstd_rand> (= generator::minstd_rand), type_iso::{enum,strong_typedef}, and libstdc++'s
// std::uniform_int_distribution / std::linear_congruential_engine executed from their headers.
//
// "Every seed" is generalised to EVERY ENGINE OUTPUT SEQUENCE: the uniform random bit generator is a kernel-defined class
// whose operator() hands out fresh symbolic words (constrained to [min(),max()]); the fcppt side and the reference side
// (std::uniform_int_distribution used directly) read the SAME words through two generator objects.
// Generators: word32 (min 0, max 2^32-1, like std::mt19937: Lemire path), word64 (0..2^64-1, like std::mt19937_64: 128-bit
// Lemire path), minstd (result_type uint_fast32_t, 1..2147483646, like std::minstd_rand: two-division fallback path).
// Oracle: value drawn through fcppt == value drawn by the std distribution with parameters (a,b), re-wrapped in the result
// type; same number of words consumed; a <= value <= b; the wrapped distribution holds exactly (a,b) / (0,max enumerator) /
// (0,size-1); both ends reachable (SAT witnesses: harnesses h_end_* whose only reach marker sits behind value == end);
// empty container => nothing; uniform_container yields the element at the drawn index.
//
// STATED CUT: std::uniform_int_distribution's rejection loop is unbounded.  Each harness owns `nwords` symbolic words; a
// generator call beyond them is cut with verif_assume(false), i.e. executions that reject more than (nwords - draws) times
// (probability < 2^-(nwords-draws) each) are not examined.
// Interval bounds a,b are fully symbolic where the solver copes (32-bit generator), otherwise restricted as written at the
// harness (the property's own domain: -8..8 and intervals touching the type limits).
//
// Outside the claim: uniform_real / normal parameters (floating point), distribution quality, seed_from_chrono (clock),
// std::mt19937 state initialisation (624-word loop of 32-bit multiplications; basic_pseudo forwards to it unchanged as for
// minstd_rand), stream << / >> of distributions.
// Not instantiable at all (compile errors in the unchanged tree, reported separately, so there is nothing to execute):
// distribution::basic::param() const, basic::operator()(Rng&, param_type const&), parameters::uniform_int::convert_to.
//@property C20
#include "verif_api.h"
#include <fcppt/make_cref.hpp>
#include <fcppt/make_ref.hpp>
#include <fcppt/make_strong_typedef.hpp>
#include <fcppt/reference_impl.hpp>
#include <fcppt/strong_typedef_impl.hpp>
#include <fcppt/optional/object_impl.hpp>
#include <fcppt/random/make_variate.hpp>
#include <fcppt/random/variate.hpp>
#include <fcppt/random/distribution/basic.hpp>
#include <fcppt/random/distribution/make_basic.hpp>
#include <fcppt/random/distribution/parameters/make_uniform_enum.hpp>
#include <fcppt/random/distribution/parameters/make_uniform_enum_advanced.hpp>
#include <fcppt/random/distribution/parameters/make_uniform_indices.hpp>
#include <fcppt/random/distribution/parameters/make_uniform_indices_advanced.hpp>
#include <fcppt/random/distribution/parameters/uniform_int.hpp>
#include <fcppt/random/distribution/parameters/uniform_int_wrapper.hpp>
#include <fcppt/random/generator/basic_pseudo_impl.hpp>
#include <fcppt/random/generator/minstd_rand.hpp>
#include <fcppt/random/wrapper/make_uniform_container.hpp>
#include <fcppt/random/wrapper/make_uniform_container_advanced.hpp>
#include <fcppt/random/wrapper/uniform_container.hpp>
#include <fcppt/type_iso/enum.hpp>
#include <fcppt/type_iso/strong_typedef.hpp>
#include <cstdint>
#include <limits>
#include <random>
#include <type_traits>
#include <vector>

namespace
{
namespace params_ns = fcppt::random::distribution::parameters;
using wrapper_t = params_ns::uniform_int_wrapper;

constexpr unsigned max_words = 6;
struct word_source
{
  std::uint64_t w[max_words];
  unsigned n;
};

// the generator: hands out the words of a shared source, counts its calls
template <typename R, R Min, R Max>
struct gen
{
  using result_type = R;
  static constexpr R min() { return Min; }
  static constexpr R max() { return Max; }
  word_source const *src;
  unsigned calls;
  R operator()()
  {
    verif_assume(calls < src->n); // the stated cut
    return static_cast<R>(src->w[calls++]);
  }
};
using word32 = gen<std::uint32_t, 0U, 0xffffffffU>;
using word64 = gen<std::uint64_t, 0U, 0xffffffffffffffffULL>;
using minstd = gen<std::uint_fast32_t, 1U, 2147483646U>;
static_assert(std::is_same_v<minstd::result_type, std::minstd_rand::result_type> && minstd::min() == std::minstd_rand::min() && minstd::max() == std::minstd_rand::max());

template <typename G>
word_source fresh_words(unsigned const n)
{
  word_source s{};
  s.n = n;
  for (unsigned i = 0; i < n; ++i)
  {
    s.w[i] = sizeof(typename G::result_type) == 4 || G::max() <= 0xffffffffU ? verif_u32("w") : verif_u64("w");
    verif_assume(s.w[i] >= G::min() && s.w[i] <= G::max());
  }
  return s;
}

template <typename T> T sym(char const *const n) { return static_cast<T>(verif_u64(n)); }

// how the interval is chosen: 0 = a, b fully symbolic; 1 = the property's small domain [-8,8]; 2 = touching the type limits;
// 3 = a fully symbolic, width b-a a shape parameter "wd" (wd < 100: width wd; wd >= 100: full type range minus (wd-100)) -
// with a concrete width libstdc++'s scaling arithmetic has one constant operand, which keeps the wide multiplications and
// divisions of the 64-bit / minstd generator paths cheap for the solver
template <typename Int>
void interval(unsigned const mode, Int &a, Int &b)
{
  constexpr Int lo{std::numeric_limits<Int>::min()}, hi{std::numeric_limits<Int>::max()};
  using U = std::make_unsigned_t<Int>;
  a = sym<Int>("a");
  if (mode == 3)
  {
    std::uint64_t const wd{verif_param("wd")};
    U const width{wd < 100U ? static_cast<U>(wd) : static_cast<U>(static_cast<U>(static_cast<U>(hi) - static_cast<U>(lo)) - static_cast<U>(wd - 100U))};
    verif_assume(static_cast<U>(static_cast<U>(hi) - static_cast<U>(a)) >= width); // a + width does not overflow
    b = static_cast<Int>(static_cast<U>(static_cast<U>(a) + width));
    return;
  }
  b = sym<Int>("b");
  verif_assume(a <= b);
  if (mode == 1)
  {
    if constexpr (std::is_signed_v<Int>) verif_assume(a >= -8 && b <= 8);
    else verif_assume(b <= 16);
  }
  if (mode == 2) verif_assume((a <= lo + 2 || a >= hi - 18) && (b >= hi - 2 || b <= lo + 18));
}

FCPPT_MAKE_STRONG_TYPEDEF(int, strong_int);
FCPPT_MAKE_STRONG_TYPEDEF(std::uint64_t, strong_u64);

template <unsigned N, typename U>
struct en
{
  enum class type : U { first = 0, fcppt_maximum = N - 1 };
};

// ---- plain / strong-typedef result: Result is Int or a strong typedef of Int
// parameters are handed through unchanged (no generator involved)
template <typename Result, typename Int>
void handed()
{
  Int a, b;
  interval<Int>(0, a, b);
  using params = params_ns::uniform_int<Result>;
  using dist = fcppt::random::distribution::basic<params>;
  params const p{typename params::min{Result{a}}, typename params::max{Result{b}}};
  dist const d0{p};
  verif_assert(d0.distribution().a() == a && d0.distribution().b() == b, "the wrapped std distribution holds exactly (a,b)");
  verif_assert(fcppt::type_iso::undecorate(d0.min()) == a && fcppt::type_iso::undecorate(d0.max()) == b, "basic::min()/max() are a and b");
  dist const d1{typename params::min{Result{a}}, typename params::max{Result{b}}};
  verif_assert(d0 == d1 && !(d0 != d1), "both basic constructors build the same distribution");
  Int const c{sym<Int>("c")}, d{sym<Int>("d")};
  verif_assume(c <= d);
  dist d2{typename params::min{Result{c}}, typename params::max{Result{d}}};
  verif_assert((d2 == d0) == (a == c && b == d), "distributions compare equal exactly when their intervals are equal");
  d2.param(p);
  verif_assert(d2 == d0 && d2.distribution().a() == a && d2.distribution().b() == b, "basic::param(p) installs exactly (a,b)");
  verif_assert(fcppt::type_iso::undecorate(d2.min()) == a && fcppt::type_iso::undecorate(d2.max()) == b, "basic::min()/max() follow param(p)");
  d2.reset();
  verif_assert(d2 == d0, "reset() keeps the parameters");
  verif_reach("handed-end");
}

// transparency: variate / basic / make_variate draw what std::uniform_int_distribution draws from the same words
template <typename Result, typename Int, typename G>
void transparent(unsigned const mode, unsigned const draws, unsigned const nwords)
{
  Int a, b;
  interval<Int>(mode, a, b);
  word_source const ws{fresh_words<G>(nwords)};
  G g1{&ws, 0}, g2{&ws, 0};
  using params = params_ns::uniform_int<Result>;
  using dist = fcppt::random::distribution::basic<params>;
  params const p{typename params::min{Result{a}}, typename params::max{Result{b}}};
  std::uniform_int_distribution<Int> ref{a, b};
  fcppt::random::variate<G, dist> v{fcppt::make_ref(g1), p};
  Int y{};
  for (unsigned k = 0; k < draws; ++k)
  {
    y = ref(g2);
    Result const x{v()};
    Int const xi{fcppt::type_iso::undecorate(x)};
    verif_out("x", static_cast<std::uint64_t>(xi));
    verif_assert(xi == y, "variate draws exactly what std::uniform_int_distribution draws from the same words");
    verif_assert(g1.calls == g2.calls, "variate consumes exactly as many words as the std distribution");
  }
  if (draws == 1)
  {
    // the other ways to draw: basic::operator()(rng), variate(generator, distribution), make_variate
    G h1{&ws, 0}, h3{&ws, 0}, h4{&ws, 0};
    dist dd{p};
    Int const x1{fcppt::type_iso::undecorate(dd(h1))};
    auto vv{fcppt::random::make_variate(fcppt::make_ref(h3), fcppt::random::distribution::make_basic(p))};
    Int const x3{fcppt::type_iso::undecorate(vv())};
    fcppt::random::variate<G, dist> v4{fcppt::make_ref(h4), dd};
    Int const x4{fcppt::type_iso::undecorate(v4())};
    verif_assert(x1 == y && x3 == y && x4 == y, "basic::operator()(rng), variate(generator, distribution) and make_variate draw what the std distribution draws");
    verif_assert(h1.calls == g2.calls && h3.calls == g2.calls && h4.calls == g2.calls, "... and consume as many words");
  }
  verif_reach("transparent-end");
}

// bounds: the value drawn through fcppt lies in [a,b]
template <typename Result, typename Int, typename G>
void bounds(unsigned const mode, unsigned const nwords)
{
  Int a, b;
  interval<Int>(mode, a, b);
  word_source const ws{fresh_words<G>(nwords)};
  G g1{&ws, 0};
  using params = params_ns::uniform_int<Result>;
  fcppt::random::variate<G, fcppt::random::distribution::basic<params>> v{fcppt::make_ref(g1), params{typename params::min{Result{a}}, typename params::max{Result{b}}}};
  Int const xi{fcppt::type_iso::undecorate(v())};
  verif_out("x", static_cast<std::uint64_t>(xi));
  verif_assert(a <= xi && xi <= b, "the drawn value lies in [a,b]");
  verif_reach("bounds-end");
}

// concrete interval from a table of interesting bounds (shape parameters ai <= bi), words symbolic: transparency and bounds
// in one harness.  Used where the result type is narrower than the generator word (int over a 64-bit word): libstdc++ then
// computes the range as uint64(b) - uint64(a), a difference of sign extensions that z3 neither folds for symbolic a nor
// decides within 60 s inside the wide multiplication / division that follows.
template <typename Result, typename Int, typename G>
void grid(unsigned const nwords)
{
  constexpr Int lo{std::numeric_limits<Int>::min()}, hi{std::numeric_limits<Int>::max()};
  Int const table[9] = {lo, static_cast<Int>(lo + 1), static_cast<Int>(-8), static_cast<Int>(-1), 0, 1, 8, static_cast<Int>(hi - 1), hi};
  Int const a{table[verif_param("ai")]}, b{table[verif_param("bi")]};
  word_source const ws{fresh_words<G>(nwords)};
  G g1{&ws, 0}, g2{&ws, 0};
  using params = params_ns::uniform_int<Result>;
  using dist = fcppt::random::distribution::basic<params>;
  fcppt::random::variate<G, dist> v{fcppt::make_ref(g1), params{typename params::min{Result{a}}, typename params::max{Result{b}}}};
  std::uniform_int_distribution<Int> ref{a, b};
  for (unsigned k = 0; k < 2; ++k)
  {
    Int const y{ref(g2)};
    Int const xi{fcppt::type_iso::undecorate(v())};
    verif_out("x", static_cast<std::uint64_t>(xi));
    verif_assert(xi == y, "variate draws exactly what std::uniform_int_distribution draws from the same words");
    verif_assert(g1.calls == g2.calls, "variate consumes exactly as many words as the std distribution");
    verif_assert(a <= xi && xi <= b, "the drawn value lies in [a,b]");
  }
  verif_reach("grid-end");
}

// both ends are produced: SAT witnesses for concrete intervals (end = 0: value == a, end = 1: value == b)
template <typename Int, typename G>
void reaches_end(unsigned const nwords)
{
  Int const a{static_cast<Int>(static_cast<std::int64_t>(verif_param("a8")) - 8)}, b{static_cast<Int>(static_cast<std::int64_t>(verif_param("b8")) - 8)};
  bool const upper{verif_param("end") != 0};
  word_source const ws{fresh_words<G>(nwords)};
  G g{&ws, 0};
  using params = params_ns::uniform_int<Int>;
  fcppt::random::variate<G, fcppt::random::distribution::basic<params>> v{fcppt::make_ref(g), params{typename params::min{a}, typename params::max{b}}};
  Int const x{v()};
  verif_assume(x == (upper ? b : a));
  verif_out("x", static_cast<std::uint64_t>(x));
  verif_reach("end-value-drawn");
}

template <typename Int, typename G>
void reaches_limit(unsigned const nwords)
{
  bool const upper{verif_param("end") != 0};
  constexpr Int lo{std::numeric_limits<Int>::min()}, hi{std::numeric_limits<Int>::max()};
  word_source const ws{fresh_words<G>(nwords)};
  G g{&ws, 0};
  using params = params_ns::uniform_int<Int>;
  fcppt::random::variate<G, fcppt::random::distribution::basic<params>> v{fcppt::make_ref(g), params{typename params::min{lo}, typename params::max{hi}}};
  Int const x{v()};
  verif_assume(x == (upper ? hi : lo));
  verif_reach("limit-value-drawn");
}

// ---- enum result
template <unsigned N, typename U, typename G>
void uniform_enum(unsigned const nwords)
{
  using E = typename en<N, U>::type;
  word_source const ws{fresh_words<G>(nwords)};
  G g1{&ws, 0}, g2{&ws, 0};
  auto const p{params_ns::make_uniform_enum_advanced<wrapper_t, E>()};
  auto const q{params_ns::make_uniform_enum<E>()};
  using params = std::remove_cv_t<decltype(p)>;
  static_assert(std::is_same_v<params, std::remove_cv_t<decltype(q)>>);
  using dist = fcppt::random::distribution::basic<params>;
  dist const d0{p}, dq{q};
  verif_assert(d0.distribution().a() == 0 && d0.distribution().b() == static_cast<U>(N - 1), "make_uniform_enum_advanced: the wrapped distribution is (0, max enumerator)");
  verif_assert(d0 == dq, "make_uniform_enum equals make_uniform_enum_advanced<uniform_int_wrapper>");
  verif_assert(d0.min() == E::first && d0.max() == E::fcppt_maximum, "basic::min()/max() are the first and last enumerator");
  fcppt::random::variate<G, dist> v{fcppt::make_ref(g1), p};
  std::uniform_int_distribution<U> ref{U{0}, static_cast<U>(N - 1)};
  for (unsigned k = 0; k < 2; ++k)
  {
    E const x{v()};
    U const y{ref(g2)};
    verif_out("x", static_cast<std::uint64_t>(x));
    verif_assert(static_cast<U>(x) == y, "enum variate draws the enumerator whose value the std distribution draws");
    verif_assert(g1.calls == g2.calls, "enum variate consumes exactly as many words");
    verif_assert(static_cast<std::uint64_t>(x) < N, "the drawn enumerator is a valid enumerator");
  }
  verif_reach("enum-end");
}

template <unsigned N, typename U, typename G>
void enum_reaches_end(unsigned const nwords)
{
  using E = typename en<N, U>::type;
  bool const upper{verif_param("end") != 0};
  word_source const ws{fresh_words<G>(nwords)};
  G g{&ws, 0};
  auto const p{params_ns::make_uniform_enum<E>()};
  fcppt::random::variate<G, fcppt::random::distribution::basic<std::remove_cv_t<decltype(p)>>> v{fcppt::make_ref(g), p};
  E const x{v()};
  verif_assume(x == (upper ? E::fcppt_maximum : E::first));
  verif_reach("enum-end-value-drawn");
}

// ---- enums whose underlying values are NOT 0-based (negative enumerators): uniform_int<Enum> goes through
// fcppt::type_iso::transform<Enum> (type_iso/enum.hpp).  The wrapped distribution must be std::uniform_int_distribution over the
// underlying type holding exactly (underlying(min), underlying(max)); draws = std::uniform_int_distribution<U>(lo, hi) re-wrapped.
enum class direction : int { left = -1, none, right };
enum class level16 : short { lowest = -2, low, mid, high, highest };
enum class tiny8 : signed char { m3 = -3, m2, m1, zero, p1 };
enum class far64 : long { a = -1000000000000L, b, c };

// symbolic_sub: the interval is a solver-chosen sub-interval [a,b] of [Lo,Hi] (32-bit generator only, see grid())
template <typename E, E Lo, E Hi, typename G>
void signed_enum(bool const symbolic_sub, unsigned const nwords)
{
  using U = std::underlying_type_t<E>;
  U a{static_cast<U>(Lo)}, b{static_cast<U>(Hi)};
  if (symbolic_sub)
  {
    a = static_cast<U>(verif_u64("a"));
    b = static_cast<U>(verif_u64("b"));
    verif_assume(static_cast<U>(Lo) <= a && a <= b && b <= static_cast<U>(Hi));
  }
  using params = params_ns::uniform_int<E>;
  using dist = fcppt::random::distribution::basic<params>;
  // run-time assertions on purpose: a changed wrapped type must be reported as a violation, not as a kernel that no longer compiles
  verif_assert(std::is_same_v<typename dist::wrapped_distribution, std::uniform_int_distribution<U>>, "uniform_int<Enum>: the wrapped distribution is over the underlying type of the enum");
  verif_assert(std::is_same_v<typename dist::result_type, E>, "uniform_int<Enum>: the result type is the enum");
  params const p{typename params::min{static_cast<E>(a)}, typename params::max{static_cast<E>(b)}};
  dist const d0{p};
  verif_assert(d0.distribution().a() == a && d0.distribution().b() == b, "uniform_int<Enum>: the wrapped distribution holds exactly (underlying(min), underlying(max))");
  verif_assert(d0.min() == static_cast<E>(a) && d0.max() == static_cast<E>(b), "uniform_int<Enum>: basic::min()/max() are the given enumerators");
  word_source const ws{fresh_words<G>(nwords)};
  G g1{&ws, 0}, g2{&ws, 0}, g3{&ws, 0};
  fcppt::random::variate<G, dist> v{fcppt::make_ref(g1), p};
  std::uniform_int_distribution<U> ref{a, b};
  for (unsigned k = 0; k < 2; ++k)
  {
    U const y{ref(g2)};
    E const x{v()};
    verif_out("x", static_cast<std::uint64_t>(static_cast<std::int64_t>(static_cast<U>(x))));
    verif_assert(static_cast<U>(x) == y, "enum variate (negative enumerators) draws the enumerator whose value the std distribution draws");
    verif_assert(g1.calls == g2.calls, "enum variate (negative enumerators) consumes exactly as many words");
    verif_assert(a <= static_cast<U>(x) && static_cast<U>(x) <= b, "the drawn enumerator lies in [min, max]");
  }
  dist d1{p};
  U const y0{std::uniform_int_distribution<U>{a, b}(g3)};
  G g4{&ws, 0};
  verif_assert(static_cast<U>(d1(g4)) == y0, "basic<uniform_int<Enum>>::operator()(rng) draws what the std distribution draws");
  verif_reach("signed-enum-end");
}

template <typename E, E Lo, E Hi, typename G>
void signed_enum_reaches_end(unsigned const nwords)
{
  bool const upper{verif_param("end") != 0};
  word_source const ws{fresh_words<G>(nwords)};
  G g{&ws, 0};
  using params = params_ns::uniform_int<E>;
  fcppt::random::variate<G, fcppt::random::distribution::basic<params>> v{fcppt::make_ref(g), params{typename params::min{Lo}, typename params::max{Hi}}};
  E const x{v()};
  verif_assume(x == (upper ? Hi : Lo));
  verif_reach("signed-enum-end-value-drawn");
}

// ---- indices / containers
template <typename G>
void container(unsigned const nwords)
{
  unsigned const n{static_cast<unsigned>(verif_param("n"))};
  std::vector<int> vec{};
  for (unsigned i = 0; i < n; ++i) vec.push_back(static_cast<int>(verif_u32("elem")));
  using size_type = std::vector<int>::size_type;
  auto const oi{params_ns::make_uniform_indices_advanced<wrapper_t>(vec)};
  auto const oi2{params_ns::make_uniform_indices(vec)};
  verif_assert(oi.has_value() == (n != 0) && oi2.has_value() == (n != 0), "make_uniform_indices(_advanced): nothing exactly for an empty container");
  auto oc{fcppt::random::wrapper::make_uniform_container_advanced<wrapper_t>(fcppt::make_ref(vec))};
  auto oc2{fcppt::random::wrapper::make_uniform_container(fcppt::make_cref(vec))};
  verif_assert(oc.has_value() == (n != 0) && oc2.has_value() == (n != 0), "make_uniform_container(_advanced): nothing exactly for an empty container");
  if (n != 0)
  {
    using params = std::remove_cvref_t<decltype(oi.get_unsafe())>;
    using dist = fcppt::random::distribution::basic<params>;
    dist const d0{oi.get_unsafe()}, d2{oi2.get_unsafe()};
    verif_assert(d0.distribution().a() == 0 && d0.distribution().b() == n - 1U, "make_uniform_indices_advanced: the wrapped distribution is (0, size-1)");
    verif_assert(d0 == d2, "make_uniform_indices equals make_uniform_indices_advanced<uniform_int_wrapper>");
    word_source const ws{fresh_words<G>(nwords)};
    G g1{&ws, 0}, g2{&ws, 0}, g3{&ws, 0}, g4{&ws, 0};
    std::uniform_int_distribution<size_type> ref{0U, n - 1U};
    size_type const y{ref(g2)};
    verif_out("index", y);
    verif_assert(y < n, "the reference index is inside the container");
    dist d1{oi.get_unsafe()};
    verif_assert(d1(g3) == y, "index distribution draws what the std distribution draws");
    int &r{oc.get_unsafe()(g1)};
    verif_assert(&r == &vec[y], "uniform_container yields the element at the drawn index");
    verif_assert(g1.calls == g2.calls, "uniform_container consumes exactly as many words");
    int const &rc{oc2.get_unsafe()(g4)};
    verif_assert(&rc == &vec[y], "uniform_container over a const container yields the same element");
    // the wrapper refers to the CONTAINER: after the container got other storage of the same size (swap), it draws from
    // the container's current elements
    std::vector<int> other(n, 0);
    for (unsigned i = 0; i < n; ++i) other[i] = static_cast<int>(verif_u32("elem2"));
    vec.swap(other);
    G g5{&ws, 0};
    int &r2{oc.get_unsafe()(g5)};
    verif_assert(&r2 == &vec[y], "uniform_container draws from its container's current storage (after a swap with an equally sized vector)");
  }
  verif_reach("container-end");
}

// basic_pseudo over std::mt19937 with CONCRETE seeds (the 624-word state initialisation and the twist are executed on
// concrete values; a symbolic seed is out of reach): 0 is an ordinary seed for the Mersenne twister, 5489 its default
void pseudo_mt_concrete()
{
  using wrapped = std::mt19937;
  using fg = fcppt::random::generator::basic_pseudo<wrapped>;
  wrapped::result_type const seed{static_cast<wrapped::result_type>(verif_param("seed"))};
  fg g{fg::seed{seed}};
  wrapped r{seed};
  for (unsigned k = 0; k < 2; ++k)
  {
    wrapped::result_type const x{g()}, y{r()};
    verif_out("x", static_cast<std::uint64_t>(x));
    verif_assert(x == y, "basic_pseudo<mt19937>(seed) produces the sequence of mt19937(seed)");
  }
  verif_reach("pseudo-mt-end");
}

// ---- pseudo generator wrapper: same sequence as the wrapped engine for every seed
void pseudo_sequence()
{
  using wrapped = std::minstd_rand;
  using fg = fcppt::random::generator::basic_pseudo<wrapped>;
  static_assert(std::is_same_v<fg, fcppt::random::generator::minstd_rand>);
  static_assert(std::is_same_v<fg::result_type, wrapped::result_type>);
  // a run-time assertion on purpose: a wrong range must be reported as a violation of the property, not as a kernel that
  // no longer compiles (the standard distributions read min()/max() of the generator they are given)
  verif_assert(fg::min() == wrapped::min() && fg::max() == wrapped::max(), "basic_pseudo reports the output range of the wrapped engine");
  wrapped::result_type const seed{static_cast<wrapped::result_type>(verif_u64("seed"))};
  fg g{fg::seed{seed}};
  wrapped r{seed};
  for (unsigned k = 0; k < 4; ++k)
  {
    wrapped::result_type const x{g()}, y{r()};
    verif_out("x", x);
    verif_assert(x == y, "basic_pseudo<minstd_rand>(seed) produces the sequence of minstd_rand(seed)");
  }
  verif_reach("pseudo-sequence-end");
}

// ... and as the generator of a variate.  NARROWING: 16-bit seeds (z3 does not decide facts about (48271*x) % 2147483647
// for a 64-bit symbolic x within 60 s; with 16 free bits it does)
void pseudo_variate()
{
  using wrapped = std::minstd_rand;
  using fg = fcppt::random::generator::basic_pseudo<wrapped>;
  wrapped::result_type const seed{verif_u16("seed")};
  fg g2{fg::seed{seed}};
  wrapped r2{seed};
  using params = params_ns::uniform_int<int>;
  int const a{static_cast<int>(verif_param("a8")) - 8}, b{static_cast<int>(verif_param("b8")) - 8};
  fcppt::random::variate<fg, fcppt::random::distribution::basic<params>> v{fcppt::make_ref(g2), params{params::min{a}, params::max{b}}};
  std::uniform_int_distribution<int> ref{a, b};
  // STATED CUT: the first engine output is accepted by the distribution (it does not fall into the last partial bucket of
  // libstdc++'s two-division downscaling), so exactly one word is consumed; one draw
  {
    wrapped r3{seed};
    std::uint64_t const range{wrapped::max() - wrapped::min()}, erange{static_cast<std::uint64_t>(b - a) + 1U};
    std::uint64_t const past{erange * (range / erange)};
    verif_assume(r3() - wrapped::min() < past);
  }
  {
    int const x{v()}, y{ref(r2)};
    verif_out("x", static_cast<std::uint64_t>(static_cast<unsigned>(x)));
    verif_assert(x == y, "variate over basic_pseudo<minstd_rand> draws what std::uniform_int_distribution draws from minstd_rand");
    verif_assert(a <= x && x <= b, "variate over basic_pseudo<minstd_rand>: the drawn value lies in [a,b]");
  }
  verif_reach("pseudo-variate-end");
}
}

#define H(name, ...) VERIF_HARNESS(name) { __VA_ARGS__; }
using i16 = short; using i32 = int; using i64 = long; using u32 = unsigned; using u64 = unsigned long; using u16e = unsigned short;

H(h_handed_i16, handed<i16, i16>()) H(h_handed_i32, handed<i32, i32>()) H(h_handed_i64, handed<i64, i64>()) H(h_handed_u32, handed<u32, u32>()) H(h_handed_u64, handed<u64, u64>())
H(h_handed_strong_int, handed<strong_int, int>()) H(h_handed_strong_u64, handed<strong_u64, std::uint64_t>())
//@harness h_handed_{T} for T in i16,i32,i64,u32,u64,strong_int,strong_u64 tier=quick loop=24

// transparency: D = number of draws (D = 1 also exercises basic::operator(), variate(gen, dist), make_variate),
// M = interval mode (0 fully symbolic, 1 the property's small domain -8..8, 2 touching the type limits, 3 a symbolic + width wd)
#define TR(T, G, NW) \
  H(h_tr2_m0_##T##_##G, transparent<T, T, G>(0, 2, NW + 1)) H(h_tr1_m0_##T##_##G, transparent<T, T, G>(0, 1, NW)) \
  H(h_tr2_m1_##T##_##G, transparent<T, T, G>(1, 2, NW + 1)) H(h_tr1_m1_##T##_##G, transparent<T, T, G>(1, 1, NW)) \
  H(h_tr1_m2_##T##_##G, transparent<T, T, G>(2, 1, NW)) H(h_tr1_m3_##T##_##G, transparent<T, T, G>(3, 1, NW)) H(h_tr2_m3_##T##_##G, transparent<T, T, G>(3, 2, NW + 1))
TR(i16, word32, 2) TR(i32, word32, 2) TR(i64, word32, 3) TR(u32, word32, 2) TR(u64, word32, 3)
TR(i32, minstd, 2) TR(i64, minstd, 4) TR(i32, word64, 2) TR(i64, word64, 2)
// 32-bit generator (Lemire with 64-bit product; 64-bit results: upscaling recursion)
//@harness h_tr1_m0_{T}_word32 for T in i16,i32,u32,u64 tier=quick loop=24
//@harness h_tr2_m0_{T}_word32 for T in i32,u32 tier=quick loop=24
//@harness h_tr1_m3_i64_word32 param wd=0,1,16,100,101 tier=quick loop=24
//@harness h_tr2_m3_i64_word32 param wd=2,100 tier=quick loop=24
//@harness h_tr2_m0_{T}_word32 for T in i16,i64,u64 tier=thorough loop=24 wall=900
//@harness h_tr1_m0_i64_word32 tier=thorough loop=24 wall=900
// minstd-shaped generator (two-division fallback), 64-bit generator (Lemire with 128-bit product): 64-bit results with a
// symbolic and the width a shape parameter; 32-bit results on the grid of concrete intervals (see grid());
// fully symbolic / small-domain / limit-touching symbolic intervals only in the thorough tier
//@harness h_tr1_m3_i64_{G} for G in minstd,word64 param wd=0,1,2,7,16,100,101 tier=quick loop=24
//@harness h_tr2_m3_i64_{G} for G in minstd,word64 param wd=2,16 tier=quick loop=24
//@harness h_tr1_m{M}_{T}_{G} for M in 0,1,2 for T in i32,i64 for G in minstd,word64 tier=thorough loop=24 wall=900
//@harness h_tr2_m1_{T}_{G} for T in i32,i64 for G in minstd,word64 tier=thorough loop=24 wall=900
//@harness h_tr2_m0_{T}_minstd for T in i32,i64 tier=thorough loop=24 wall=900
// (h_tr2_m0_*_word64 - two draws, fully symbolic interval, 128-bit products - is not decided by z3 within 60 s per query: not claimed)
//@harness h_tr1_m3_i32_{G} for G in minstd,word64 param wd=0,1,2,7,16,100,101 tier=thorough loop=24 wall=900
H(h_tr2_strong_int_word32, transparent<strong_int, int, word32>(0, 2, 3)) H(h_tr1_strong_int_word32, transparent<strong_int, int, word32>(0, 1, 2))
H(h_tr1_strong_u64_word64, transparent<strong_u64, std::uint64_t, word64>(3, 1, 2))
//@harness h_tr2_strong_int_word32 tier=quick loop=24
//@harness h_tr1_strong_int_word32 tier=quick loop=24
//@harness h_tr1_strong_u64_word64 param wd=0,5,100 tier=quick loop=24
H(h_grid_i32_minstd, grid<i32, i32, minstd>(6)) H(h_grid_i32_word64, grid<i32, i32, word64>(3)) H(h_grid_strong_int_minstd, grid<strong_int, int, minstd>(6))
//@harness h_grid_{X} for X in i32_minstd,i32_word64,strong_int_minstd param ai=0..8 param bi=0..8 if ai<=bi tier=quick loop=24

// bounds: M = 1 the property's small domain (-8..8), M = 2 intervals touching the type limits, 3 = a symbolic + width wd
// (fully symbolic intervals: z3 does not decide ((w * (b-a+1)) >> 32) <= b-a within 60 s)
#define BD(T, G, NW) H(h_bd1_##T##_##G, bounds<T, T, G>(1, NW)) H(h_bd2_##T##_##G, bounds<T, T, G>(2, NW)) H(h_bd3_##T##_##G, bounds<T, T, G>(3, NW))
BD(i16, word32, 2) BD(i32, word32, 2) BD(i64, word32, 3) BD(i32, minstd, 2) BD(i64, minstd, 4) BD(i32, word64, 2) BD(i64, word64, 2)
H(h_bd1_strong_int_word32, bounds<strong_int, int, word32>(1, 2))
//@harness h_bd{M}_{T}_word32 for M in 1,2 for T in i16,i32,i64 tier=quick loop=24
//@harness h_bd1_strong_int_word32 tier=quick loop=24
//@harness h_bd3_i64_{G} for G in word32,minstd,word64 param wd=0,1,2,7,16,100,101 tier=quick loop=24
//@harness h_bd{M}_{T}_{G} for M in 1,2 for T in i32,i64 for G in minstd,word64 tier=thorough loop=24 wall=900

// both ends of the interval are produced (SAT witnesses; a8/b8 are a+8 / b+8)
H(h_end_i32_word32, reaches_end<i32, word32>(1)) H(h_end_i64_word64, reaches_end<i64, word64>(1)) H(h_end_i16_minstd, reaches_end<i16, minstd>(1))
//@harness h_end_{T} for T in i32_word32,i64_word64,i16_minstd param a8=0,5,8,16 param b8=0,8,11,16 param end=0..1 if a8<=b8 tier=quick loop=24
H(h_lim_i32_word32, reaches_limit<i32, word32>(1)) H(h_lim_i64_word64, reaches_limit<i64, word64>(1)) H(h_lim_i64_word32, reaches_limit<i64, word32>(2)) H(h_lim_i32_minstd, reaches_limit<i32, minstd>(2))
//@harness h_lim_{T} for T in i32_word32,i64_word64,i64_word32,i32_minstd param end=0..1 tier=quick loop=24

// enum results: N enumerators over underlying type U
#define EN(N, U, G) H(h_enum_##N##_##U##_##G, uniform_enum<N, U, G>(3)) H(h_enumend_##N##_##U##_##G, enum_reaches_end<N, U, G>(1))
EN(1, u32, word32) EN(2, u32, word32) EN(3, i32, word32) EN(9, u32, word32) EN(9, i32, minstd) EN(3, u32, minstd) EN(9, u64, word64) EN(5, u16e, word32)
//@harness h_enum_{N}_{U}_{G} for N in 1,2,9 for U in u32 for G in word32 tier=quick loop=24
//@harness h_enum_3_i32_word32 tier=quick loop=24
//@harness h_enum_5_u16e_word32 tier=quick loop=24
//@harness h_enum_9_i32_minstd tier=quick loop=24
//@harness h_enum_3_u32_minstd tier=quick loop=24
//@harness h_enum_9_u64_word64 tier=quick loop=24
//@harness h_enumend_{X} for X in 1_u32_word32,2_u32_word32,3_i32_word32,9_u32_word32,9_i32_minstd,3_u32_minstd,9_u64_word64,5_u16e_word32 param end=0..1 tier=quick loop=24

// enums with negative enumerators (S = 1: solver-chosen sub-interval of the enumerators, S = 0: the whole enum)
#define SE(NAME, E, LO, HI, G, NW) H(h_senum_##NAME##_##G, signed_enum<E, E::LO, E::HI, G>(false, NW)) H(h_senumsub_##NAME##_##G, signed_enum<E, E::LO, E::HI, G>(true, NW)) \
  H(h_senumend_##NAME##_##G, signed_enum_reaches_end<E, E::LO, E::HI, G>(1))
SE(direction, direction, left, right, word32, 3) SE(direction, direction, left, right, minstd, 3) SE(direction, direction, left, right, word64, 3)
SE(level16, level16, lowest, highest, word32, 3) SE(level16, level16, lowest, highest, minstd, 3)
SE(tiny8, tiny8, m3, p1, word32, 3) SE(far64, far64, a, c, word64, 3) SE(far64, far64, a, c, word32, 3)
//@harness h_senum_{X} for X in direction_word32,direction_minstd,direction_word64,level16_word32,level16_minstd,tiny8_word32,far64_word64,far64_word32 tier=quick loop=24
//@harness h_senumsub_{X} for X in direction_word32,level16_word32,tiny8_word32 tier=quick loop=24
//@harness h_senumsub_far64_word64 tier=thorough loop=24 wall=900
//@harness h_senumend_{X} for X in direction_word32,direction_minstd,direction_word64,level16_word32,level16_minstd,tiny8_word32,far64_word64,far64_word32 param end=0..1 tier=quick loop=24

// containers of size n
H(h_container_word32, container<word32>(2)) H(h_container_minstd, container<minstd>(2)) H(h_container_word64, container<word64>(2))
//@harness h_container_word32 param n=0..4 tier=quick loop=24
//@harness h_container_minstd param n=0..3 tier=quick loop=24
//@harness h_container_word64 param n=0..3 tier=quick loop=24
//@harness h_container_word32 param n=5..6 tier=thorough loop=24
//@harness h_container_minstd param n=4..6 tier=thorough loop=24
//@harness h_container_word64 param n=4..6 tier=thorough loop=24

H(h_pseudo_sequence, pseudo_sequence()) H(h_pseudo_variate, pseudo_variate())
//@harness h_pseudo_sequence tier=quick loop=24
//@harness h_pseudo_variate param a8=0,5 param b8=8,16 tier=quick loop=24
VERIF_HARNESS(h_pseudo_mt) { pseudo_mt_concrete(); }
//@harness h_pseudo_mt param seed=0,1,5489 tier=quick loop=700
