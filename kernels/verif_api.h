// Harness language shared by the symbolic executor (engine/irsym.py) and the native replay runtime (replay/vrt.cpp).
//   verif_uN(name)      fresh input of N bits (symbolic in the engine, read from the replay file natively)
//   verif_param(name)   concrete shape parameter chosen by the driver (one solver run per shape)
//   verif_assume(c)     constrain the inputs (placed before the code it constrains)
//   verif_assert(c,id)  the property; decided by the solver for all inputs of the path
//   verif_reach(id)     vacuity witness: must be reached on at least one feasible path
//   verif_out(tag,v)    observation compared between engine and native build (translation validation)
//   verif_ufK(k,...)    uninterpreted function number k of K arguments ("for all functions")
#ifndef VERIF_API_H
#define VERIF_API_H
#include <cstdint>
extern "C" {
std::uint8_t verif_u8(char const *);
std::uint16_t verif_u16(char const *);
std::uint32_t verif_u32(char const *);
std::uint64_t verif_u64(char const *);
std::uint64_t verif_param(char const *);
void verif_assume(bool);
void verif_assert(bool, char const *);
void verif_reach(char const *);
void verif_out(char const *, std::uint64_t);
std::uint64_t verif_uf1(int, std::uint64_t);
std::uint64_t verif_uf2(int, std::uint64_t, std::uint64_t);
std::uint64_t verif_uf3(int, std::uint64_t, std::uint64_t, std::uint64_t);
std::uint64_t verif_locks_held(void);
}
#define VERIF_HARNESS(name) extern "C" void name(void)
#endif
