// Native runtime of kernels/verif_api.h: inputs, parameters and uninterpreted-function tables come from a replay file.
// usage: <binary> <harness> <replay-file>
#include <cstdint>
#include <cstdio>
#include <cstdlib>
#include <cstring>
#include <map>
#include <string>
#include <vector>
#include <unistd.h>
namespace {
std::map<std::string, std::uint64_t> inputs, params;
std::map<std::string, unsigned> counts;
struct uf_tab { std::vector<std::pair<std::vector<std::uint64_t>, std::uint64_t>> entries; std::uint64_t els = 0; };
std::map<std::string, uf_tab> ufs;
std::uint64_t in(char const *n) {
  unsigned k = counts[n]++;
  std::string full = n;
  if (k) full += "#" + std::to_string(k);
  auto it = inputs.find(full);
  return it == inputs.end() ? 0 : it->second;
}
std::uint64_t uf(int k, std::vector<std::uint64_t> const &a) {
  auto it = ufs.find(std::to_string(k) + "/" + std::to_string(a.size()));
  if (it == ufs.end()) return 0;
  for (auto const &e : it->second.entries) if (e.first == a) return e.second;
  return it->second.els;
}
}
extern "C" {
std::uint8_t verif_u8(char const *n) { return static_cast<std::uint8_t>(in(n)); }
std::uint16_t verif_u16(char const *n) { return static_cast<std::uint16_t>(in(n)); }
std::uint32_t verif_u32(char const *n) { return static_cast<std::uint32_t>(in(n)); }
std::uint64_t verif_u64(char const *n) { return in(n); }
std::uint64_t verif_param(char const *n) { auto it = params.find(n); if (it == params.end()) { std::printf("MISSING-PARAM %s\n", n); std::fflush(stdout); _exit(12); } return it->second; }
void verif_assume(bool c) { if (!c) { std::puts("ASSUME-FALSE"); std::fflush(stdout); _exit(11); } }
void verif_assert(bool c, char const *id) { if (!c) { std::printf("ASSERT-FAIL %s\n", id); std::fflush(stdout); _exit(10); } }
void verif_reach(char const *id) { std::printf("REACH %s\n", id); }
void verif_out(char const *t, std::uint64_t v) { std::printf("OUT %s %llu\n", t, static_cast<unsigned long long>(v)); }
std::uint64_t verif_uf1(int k, std::uint64_t a) { return uf(k, {a}); }
std::uint64_t verif_uf2(int k, std::uint64_t a, std::uint64_t b) { return uf(k, {a, b}); }
std::uint64_t verif_uf3(int k, std::uint64_t a, std::uint64_t b, std::uint64_t c) { return uf(k, {a, b, c}); }
std::uint64_t verif_locks_held(void) { return 1; }
}
struct verif_entry { char const *name; void (*fn)(void); };
extern verif_entry const verif_harnesses[];
int main(int argc, char **argv) {
  if (argc < 3) { std::fputs("usage: bin harness replay-file\n", stderr); return 2; }
  std::FILE *f = std::fopen(argv[2], "r");
  if (!f) { std::perror("replay file"); return 2; }
  char kind[16], name[256];
  while (std::fscanf(f, "%15s", kind) == 1) {
    if (!std::strcmp(kind, "in") || !std::strcmp(kind, "param")) {
      unsigned long long v;
      if (std::fscanf(f, "%255s %llu", name, &v) != 2) return 2;
      (kind[0] == 'i' ? inputs : params)[name] = v;
    } else if (!std::strcmp(kind, "uf")) {
      unsigned long long e;
      if (std::fscanf(f, "%255s %llu", name, &e) != 2) return 2;
      ufs[name].els = e;
    } else if (!std::strcmp(kind, "ufe")) {
      unsigned n; unsigned long long v;
      if (std::fscanf(f, "%255s %u", name, &n) != 2) return 2;
      std::vector<std::uint64_t> a;
      for (unsigned i = 0; i < n; ++i) { if (std::fscanf(f, "%llu", &v) != 1) return 2; a.push_back(v); }
      if (std::fscanf(f, "%llu", &v) != 1) return 2;
      ufs[name].entries.push_back({a, v});
    } else { char line[1024]; if (!std::fgets(line, sizeof line, f)) break; }
  }
  std::fclose(f);
  for (verif_entry const *e = verif_harnesses; e->name; ++e)
    if (!std::strcmp(e->name, argv[1])) { e->fn(); std::puts("DONE"); std::fflush(stdout); return 0; }
  std::fprintf(stderr, "no harness %s\n", argv[1]);
  return 2;
}
