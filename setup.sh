#!/bin/sh
# offline setup: nothing to build ahead of time (kernels are recompiled from /repo on every check);
# verify the tools the checks need and refresh the fallback copy of the generated config headers.
set -e
cd "$(dirname "$0")"
command -v clang++-14 >/dev/null; command -v g++ >/dev/null; command -v python3-vt >/dev/null
python3-vt -c "import z3"
if [ -d /repo/_build/include/fcppt ]; then mkdir -p gen_include && cp -r /repo/_build/include/fcppt gen_include/; fi
mkdir -p out evidence
echo setup ok
